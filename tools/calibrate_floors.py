#!/usr/bin/env python3
"""usage: tools/calibrate_floors.py <tier>  -- after a clean run of every check on the unchanged tree:
writes ypv/floors.json[pid][tier] = 35% (quick) / 20% (thorough) of the measured counters for the floor keys each check declares."""
import importlib, json, os, sys
HERE = os.path.dirname(os.path.dirname(os.path.abspath(__file__)))
sys.path.insert(0, HERE)
tier = sys.argv[1]
evdir = sys.argv[2] if len(sys.argv) > 2 else os.path.join(HERE, 'evidence')
accept_inconclusive_floor_only = len(sys.argv) > 2
path = os.path.join(HERE, 'ypv', 'floors.json')
try:
    cal = json.load(open(path))
except FileNotFoundError:
    cal = {}
for i in range(1, 21):
    pid = 'C%02d' % i
    try:
        ev = json.load(open(os.path.join(evdir, pid + '.json')))
    except FileNotFoundError:
        print('missing', pid); continue
    floor_only = ev.get('verdict') == 'inconclusive' and all('below floor' in r for r in ev.get('inconclusive_reasons', []))
    if ev['tier'] != tier or not (ev.get('verdict') == 'held' or (accept_inconclusive_floor_only and floor_only)):
        print('skip', pid, ev['tier'], ev.get('verdict'))
        continue
    mod = importlib.import_module('ypv.checks.c%02d' % i)
    floor = mod.plan(tier, 1).get('floor', {})
    cnt = ev['coverage']['counters']
    out = {}
    for k in floor:
        if k.startswith('case:') or k == 'flag_sets_seen' or k.startswith('exhaustive'):
            continue
        have = ev['coverage']['distinct_nontrivial'] if k == 'distinct_nontrivial' else cnt.get(k, 0)
        # quick tiers finish in a sixth of their deadline; several thorough tiers run up to their deadline, so on a
        # machine a few times slower they cover proportionally less: their floors are set lower (20 %)
        out[k] = max(1, int(have * (0.35 if tier == 'quick' else 0.2)))
    cal.setdefault(pid, {})[tier] = out
json.dump(cal, open(path, 'w'), indent=1, sort_keys=True)
print('written', path)
