#!/usr/bin/env python3
"""usage: tools/seeded_eval.py <Cxx> <A|B> [extra check ids...]
Verifies a sub-agent's change from /tmp/wt-out/<Cxx>/<X>/ (applies, tests pass, demo fails with / passes without),
runs the quick tier of the property's check (and extra checks) against a patched scratch copy, and, if the change is
valid, stores it as /verif/seeded/<Cxx>-<X>/ (patch.diff, demo.py, meta.json)."""
import json, os, re, shutil, subprocess, sys
HERE = os.path.dirname(os.path.dirname(os.path.abspath(__file__)))
pid, x = sys.argv[1], sys.argv[2]
extra = sys.argv[3:]
src = '/tmp/wt-out/%s/%s' % (pid, x)
if not os.path.exists(os.path.join(src, 'patch.diff')):
    print('no patch in', src); sys.exit(2)
v = subprocess.run([os.path.join(HERE, 'tools/seeded_verify.sh'), src], capture_output=True, text=True).stdout.strip()
print(v)
m = re.search(r'demo_without_change_rc=(\d+) demo_with_change_rc=(\d+) tests: (.*)', v)
ok = bool(m) and m.group(1) == '0' and m.group(2) != '0' and '61 passed' in m.group(3)
results = {}
if ok:
    for chk in [pid] + extra:
        env = dict(os.environ, SKIP_TESTS='1')
        r = subprocess.run([os.path.join(HERE, 'selftest/run_mutant.sh'), os.path.join(src, 'patch.diff'), chk], capture_output=True, text=True, env=env)
        last = r.stdout.strip().split('\n')
        results[chk] = {'caught': r.returncode == 0, 'lines': last[-3:]}
        print(chk, 'CAUGHT' if r.returncode == 0 else 'MISSED', '|', ' | '.join(l[:160] for l in last[-3:-1]))
meta = {}
try:
    meta = json.load(open(os.path.join(src, 'meta.json')))
except Exception as e:
    meta = {'note': 'meta.json of the sub-agent unreadable: %r' % e}
meta['verified_here'] = {'claims_ok': ok, 'raw': v,
                         'commands': ['tools/seeded_verify.sh %s' % src] + ['SKIP_TESTS=1 selftest/run_mutant.sh <patch> %s quick' % c for c in results]}
meta['checks'] = {c: ('caught' if r['caught'] else 'missed') for c, r in results.items()}
if ok:
    dst = os.path.join(HERE, 'seeded', '%s-%s' % (pid, x))
    os.makedirs(dst, exist_ok=True)
    shutil.copy(os.path.join(src, 'patch.diff'), dst)
    shutil.copy(os.path.join(src, 'demo.py'), dst)
    json.dump(meta, open(os.path.join(dst, 'meta.json'), 'w'), indent=1)
    print('stored', dst)
else:
    print('NOT KEPT (claims not confirmed)')
