#!/bin/sh
# usage: tools/seeded_verify.sh <dir with patch.diff demo.py>  -> verifies the claims of a seeded change on a scratch copy
d="$(realpath "$1")"
tmp="$(mktemp -d /tmp/ypv-seed.XXXXXX)"; trap 'rm -rf "$tmp"' EXIT
git -C /repo archive HEAD | tar -x -C "$tmp" || exit 2
cp "$d/demo.py" "$tmp/demo_seeded.py"
(cd "$tmp" && PYTHONPATH="$tmp/src" timeout 300 /venv/bin/python demo_seeded.py >/dev/null 2>&1); clean=$?
(cd "$tmp" && git init -q . >/dev/null 2>&1; git apply "$d/patch.diff" 2>"$tmp/apply.err") || (cd "$tmp" && patch -p1 -s < "$d/patch.diff") || { echo "APPLY-FAILED"; cat "$tmp/apply.err"; exit 2; }
tests=$(cd "$tmp" && PYTHONPATH="$tmp/src" /venv/bin/python -m pytest -q -p no:cacheprovider tests 2>&1 | tail -1)
(cd "$tmp" && PYTHONPATH="$tmp/src" timeout 300 /venv/bin/python demo_seeded.py >/dev/null 2>&1); broken=$?
echo "demo_without_change_rc=$clean demo_with_change_rc=$broken tests: $tests"
