#!/bin/sh
# usage: tools/runall.sh [quick|thorough] ; runs every check in sequence, prints a one-line summary each
tier="${1:-quick}"
cd "$(dirname "$0")/.." || exit 2
rc_all=0
for id in C01 C02 C03 C04 C05 C06 C07 C08 C09 C10 C11 C12 C13 C14 C15 C16 C17 C18 C19 C20; do
  s=$(date +%s)
  out=$(./check $id $tier 2>&1); rc=$?
  e=$(date +%s)
  echo "$id rc=$rc $((e-s))s $(echo "$out" | grep -E 'HELD|VIOLATION|INCONCLUSIVE|KNOWN-FINDING' | head -2 | tr '\n' ' ' | cut -c1-200)"
  [ $rc -ne 0 ] && rc_all=1
done
exit $rc_all
