#!/usr/bin/env python3
"""writes MANIFEST.json from the table below (kept in one place so the
manifest is always valid)."""
import json, os, subprocess
HERE = os.path.dirname(os.path.dirname(os.path.abspath(__file__)))

CHECKS = {
 'C01': dict(cat='exploration', ref='4 C01',
   text='Runtime differential monitor: answers observed at every yield of YP.query on the real compiler+engine are compared with two independently written reference interpreters over tens of thousands of generated programs x queries. Exploration is the right level: the property is quantified over an unbounded program space, and the deciding step is an oracle watching real executions.',
   note='Trusted: reference interpreters A and B (must agree), the STO filter (discarding unspecified cases), CPython 3.12. Held on the executions observed, never "verified".',
   tech='runtime differential monitoring of answer sequences against dual reference interpreters'),
}
CHECKS['C05'] = dict(cat='exploration', ref='4 C05',
   text='Runtime differential monitor over generated clause bodies with cuts in every transparent position, several clauses, a caller with its own alternatives and several definition groups, plus a bounded-exhaustive slice of small bodies; the reference counts executed cuts and pruned alternatives so that runs which never exercised a cut are inconclusive.',
   note='Trusted: reference interpreters A and B (must agree). Cut inside conditions of -> and under \\+ is outside the statement and not generated.',
   tech='runtime differential monitoring (answer sequences identify the path taken) against dual reference interpreters')
CHECKS['C06'] = dict(cat='exploration', ref='4 C06',
   text='Runtime differential monitor over random nestings of ; -> \\+ with continuations, rendered with minimal parentheses so that the grammar/visitor precedence is decided by semantics; coverage of every source-reachable rewrite case of the code generator is measured from its own debug output and required.',
   note='Trusted: reference interpreters A and B (must agree); the renderer (priorities 1000/1050/1100, right associative).',
   tech='runtime differential monitoring against dual reference interpreters with rewrite-case coverage floor')
CHECKS['C09'] = dict(cat='exploration', ref='4 C09',
   text='Runtime differential monitor over generated programs using call/N, once/1, findall/3, = and \\= with every goal shape (inline, atom, compound with missing arguments, goal in a run-time bound variable, nested meta-calls, failing and unknown goals), in clause bodies and invoked directly through the API; all clause variables are observed at every answer so leaked bindings are seen; exceptions escaping the query are violations.',
   note='Trusted: reference interpreters A and B (must agree). Non-callable goals are type errors and discarded; findall instances with unbound variables are compared modulo variable identity.',
   tech='runtime differential monitoring against dual reference interpreters, per-builtin usage floors')
CHECKS['C02'] = dict(cat='exploration', ref='4 C02',
   text='Runtime monitor on the real unify(): yield count, equality of both sides at the yield, joint canonical snapshot against an independent Robinson unifier (MGU uniqueness up to renaming makes this most-generality and aliasing), symmetry on a fresh copy, pre-state restored after exhaustion/close, all under stacks of earlier unifications held open; plus an online monitor on every engine-internal unify yield while generated programs run.',
   note='Trusted: the reference unifier with occurs check and the STO filter (cases needing a cyclic term under any order are unspecified and discarded). Python constants limited to int and str.',
   tech='runtime assertion monitor on unify with reference-model comparison; online hook on internal unify')
CHECKS['C03'] = dict(cat='fault_enumeration', ref='4 C03',
   text='For every generated program/query the complete set of abandonment points is executed on the same engine and variables: exhaust, close/drop/consumer-throw after every k-th answer, a user predicate raising at every entry/resume of a full run, each also under outer unifications held open. An invariant monitor on a weak registry of all Variables (hooked on Variable.__init__) checks after finalisation that the binding state equals the state before, that every internally created variable is unbound, that nothing reached sys.unraisablehook and that every run reproduces the reference answers.',
   note='Trusted: reference interpreters A and B for the expected answers; "afterwards" read as after generator finalisation (CPython reference counting; a needed gc.collect() is counted and accepted). Fault space enumerated per program is complete for n <= 8 answers and <= 30 user-predicate events.',
   tech='invariant monitor at a hook (Variable registry, unraisable hook) under enumerated abandonment/fault points')
CHECKS['C20'] = dict(cat='exploration', ref='4 C20',
   text='Configuration-differential monitor: the same query on an all-compiled engine and on an engine where a random subset of fact predicates is registered as Python generators (inferred/explicit/variadic arity, yield True/False, before/after load, next to dynamic facts) must give the reference answers; a recording wrapper inside each Python predicate observes the arguments received in call order (checked against the reference call trace) and a raising predicate must deliver the same exception object to the consumer.',
   note='Trusted: reference interpreters A and B (must agree); Python predicates are written in the documented unify/yield style with fresh variables per call.',
   tech='runtime differential monitoring across configurations with recorded call trace and exception identity check')
CHECKS['C07'] = dict(cat='exploration', ref='4 C07',
   text='History monitor: generated operation histories (assert/retract/retractall/clear/query through the Python API and through compiled one-clause drivers, goals inline and in variables, retract exhausted or abandoned after k answers) run on the real engine; the result of every operation and a full read-back of every name/arity after every step are compared with the ordered-list fact store of two independent reference interpreters. Thorough enumerates all histories of length <= 4 over a 12-operation alphabet.',
   note='Trusted: the list model embedded in reference interpreters A and B (must agree). No modification during a suspended enumeration (C14).',
   tech='offline checking of recorded operation histories against an executable list model')
CHECKS['C13'] = dict(cat='exploration', ref='4 C13',
   text='History monitor over "build term - bind before/after/through a chain/inside a structure - assert - undo or keep - use 1-3 times", through compiled clauses and through the API with unifications held open, including two simultaneously suspended uses; all answers and the read-back store compared with the dual reference (copy at assert, rename at use).',
   note='Trusted: reference interpreters A and B; STO cases discarded.',
   tech='offline checking of recorded histories against dual reference interpreters')
CHECKS['C14'] = dict(cat='exploration', ref='4 C14',
   text='Step-wise interleaving monitor: suspended enumerations (query or retract) are stepped with next() while the same predicate is modified between steps (API), and compiled bodies assert/retract between two answers (drain loop, counter loop, nested enumerations, random goal sequences); every step answer and the final store are compared with two references implementing the logical update view; termination is decided on a logical event clock, never wall time. Thorough enumerates all interleavings of 2 enumerations x <= 3 modifications on a 3-fact predicate.',
   note='Trusted: reference interpreters A and B; "started" = first next().',
   tech='offline checking of step-wise interleaved histories against a logical-update-view model; logical-clock progress bound')
CHECKS['C15'] = dict(cat='exploration', ref='4 C15',
   text='Monitor on the export paths of answers: for acyclic equation systems executed in random orders (outer-first, inner-first, chains) through compiled bodies, head unification, findall, assertz and nested API unifications, to_python at the answer and the saved get_value result inspected WITHOUT dereferencing after the generator is closed are compared with the order-independent solution computed by a reference unifier.',
   note='Trusted: the reference unifier; partial lists are not passed to to_python (unspecified).',
   tech='runtime assertion monitor on get_value/to_python results at the answer and after backtracking')
CHECKS['C08'] = dict(cat='exploration', ref='4 C08',
   text='History monitor over load (overwrite on/off), register_function (inferred/explicit/variadic), assert, clear and failing loads; after every step a probe set (every name x arity 0..3) is queried on the real engine and compared with the list-of-definitions model of two independent reference interpreters, so order of combined loads, cut locality per definition group, exact-vs-variadic preference, late binding and atomicity of failing loads are all decided by observed answers. Thorough enumerates all 24 load orders x 16 overwrite vectors of 4 scripts.',
   note='Trusted: the definitions model in reference interpreters A and B (must agree).',
   tech='offline checking of recorded load/register/assert histories against an executable definitions model')
CHECKS['C10'] = dict(cat='exploration', ref='4 C10',
   text='Monitor on the compiler boundary for every single-edit corruption of grammar-derived programs (token deletion/duplication/swap/insertion, truncation at every character, foreign characters, trailing garbage): hooks record ANTLR error events at ProxyErrorListener.syntaxError, whether prologParser.program consumed all input, whether the compiler raised and which functions the output defines; an independent recogniser written from prolog.g4 decides membership. Violation iff the compiler returns for text outside the grammar, after an ANTLR error, with input left over, or with a def set different from the clause heads.',
   note='Trusted: ypv/recog.py as the definition of the grammar language (agreement with ANTLR is measured on every run and an accept-by-recogniser/reject-by-ANTLR mismatch makes the run inconclusive). Raising is always acceptable.',
   tech='runtime hooks on ANTLR error dispatch and input consumption plus an independent recogniser as oracle')
CHECKS['C11'] = dict(cat='exploration', ref='4 C11',
   text='For every input the compiler accepts (grammar-derived programs plus a boundary generator: numeral spellings, variables named like Python/engine names, keyword/quoted/operator predicate names, failing bodies, 1..40 goals, 1..25 nestings, terms nested 1..120 deep, long lists, many arguments/clauses) the monitor compiles the output as Python, compares its top-level definitions and the keys load_script_from_string adds to the engine with the clause heads found by the independent recogniser, checks each is a generator function and calls every defined predicate.',
   note='Trusted: ypv/recog.py for clause heads; CPython limits (20 nested blocks, 200 nested brackets, 4300-digit integers) define "too large"; reserved API names are loaded but not called.',
   tech='runtime monitor on compile/load outcome and engine context diff against recogniser-derived heads')
CHECKS['C16'] = dict(cat='exploration', ref='4 C16',
   text='Monitor on literal round trips: random literals (arbitrary Unicode quoted atoms incl. quotes/newlines/control characters, integers, nested compounds, lists, list patterns, _) are rendered to source, compiled in fact/head/body position and queried; the observed term snapshot and to_python value are compared with the value computed from the generator AST, API-built twins (same and second engine) must unify in all four positions while a twin with one changed leaf must not, and every atom object reachable from an answer must be the interned object of its engine.',
   note='Trusted: the renderer as the inverse of the documented literal syntax; backslashes other than \\\' and lone surrogates are excluded by the property; compounds named "." with arity != 2 are outside the stated mapping.',
   tech='runtime differential monitor of literal round trips with positive and negative API-built twins')
CHECKS['C18'] = dict(cat='exploration', ref='4 C18',
   text='Process-differential monitor: batches of generated programs and all repository sample files are compiled in separate interpreter processes under PYTHONHASHSEED 0/1/2/3/random/4242, in forward, reversed and shuffled order, once and twice in a row, with four option objects; the SHA-256 of the returned bytes per (text, options) must agree across every process and every position in the compilation history.',
   note='Trusted: byte equality. Debug text written to the options stream (contains object addresses) is not part of the returned value.',
   tech='differential monitoring across processes, hash seeds and compilation histories')
CHECKS['C19'] = dict(cat='exploration', ref='4 C19',
   text='Black-box monitor on the command line of the working tree: subprocess runs over all 16 debug-flag combinations x stdout/-o x files/stdin x 1-3 sources for generated programs (incl. atoms with line breaks, non-ASCII and control characters) and the sample files; exit status, stdout, the -o file (pre-filled with junk) and stderr are compared with the library output (byte-identical without debug flags, identical modulo "#" lines with them, loadable Python) and corrupted sources must give a non-zero exit with file name and line:column.',
   note='Trusted: compile_prolog_from_file as the reference for the CLI; comment lines = lines starting with "#"; LANG=C.UTF-8.',
   tech='black-box differential monitoring of CLI subprocesses against the library over all flag/I-O configurations')
CHECKS['C17'] = dict(cat='fault_enumeration', ref='4 C17',
   text='Every (program, recursion limit) pair of a contiguous limit range (so the strike point sweeps over every frame kind) is executed in forked children, combined with projection functions raising at the k-th answer (custom exception, RuntimeError, StopIteration, KeyboardInterrupt) and with the generator passed inline or held by the caller; hooks record every sys.setrecursionlimit call, the limit before/after, the binding state of all registered Variables after finalisation, unraisable events and the child exit status. The result must be a prefix of the reference answers and complete whenever a direct enumeration under the same limit at the same stack depth completes.',
   note='Trusted: reference interpreters A and B for the answer sequence; the observer inside the projection is iterative (reads binding cells) so it is not itself subject to the lowered limit. Limits above 1000 are outside the explored space (CPython aborts when closing very deep generator chains).',
   tech='fault enumeration over recursion limits and projection faults in forked children with hooks on sys.setrecursionlimit and the Variable registry')
CHECKS['C12'] = dict(cat='exploration', ref='4 C12',
   text='Three runtime monitors over hostile programs (unique-marker hostile strings in every syntactic position, variables named after every context key): (1) a taint/whitelist rule on the AST of the emitted code (only function definitions named by heads, whitelisted node types, call targets are API names, every string constant equals a source name exactly, loads are local or API, stores never shadow the API); (2) an execution monitor - sys.addaudithook during load and queries may see only the compile/exec of the script, sys.monitoring CALL events inside script code may target only this engine\'s API callables, function globals contain only the API with empty __builtins__; (3) hostile run-time queries with spy wrappers on every API entry; plus a metamorphic check that renaming variables to hostile names changes no answer.',
   note='Trusted: CPython audit events and sys.monitoring CALL events as the execution record; the AST whitelist as the documented shape of generated code. Head names that are not identifiers are rejected by the compiler and only counted.',
   tech='runtime monitors: audit hook, sys.monitoring CALL callee whitelist, AST taint rule on emitted code, API spies')
CHECKS['C04'] = dict(cat='exploration', ref='4 C04',
   text='Schedule-differential monitor: each engine history (and each suspended query) is run alone in a freshly forked pristine interpreter, and then together with 1-3 other engines using the same predicate names under back-to-back, round-robin and random step interleavings, within one engine as simultaneously suspended queries, and on 2-8 threads with switch interval 1e-6 and seeded sleep(0) injection on sys.monitoring LINE events; every per-engine observation list must equal its solo run. Thread switches actually observed between monitored lines are counted.',
   note='Trusted: the solo run in a pristine forked interpreter as the meaning of "alone"; no reference interpreter involved. evaluate_bounded excluded as stated; ANTLR compilation happens before threads start.',
   tech='schedule-differential runtime monitoring with yield injection on LINE events and thread-switch counting')
PENDING = {}

def main():
    props = [json.loads(l)['id'] for l in open(os.path.join(HERE, 'properties.jsonl'))]
    checks = []
    for pid in props:
        if pid not in CHECKS:
            continue
        c = CHECKS[pid]
        checks.append({
            'property_id': pid,
            'quick_cmd': './check %s quick' % pid,
            'thorough_cmd': './check %s thorough' % pid,
            'evidence_file': 'evidence/%s.json' % pid,
            'replay_cmd_template': './check %s --replay {path}' % pid,
            'engine': 'ypv',
            'level_claimed': {'category': c['cat'], 'text': c['text'], 'design_ref': 'DESIGN.md section ' + c['ref']},
            'level_note': c['note'],
            'technique': c['tech'],
        })
    na = [{'property_id': p, 'reason': PENDING.get(p, 'check not built yet (work in progress); runtime monitoring applies and a monitor is planned in DESIGN.md section 4')}
          for p in props if p not in CHECKS]
    fix_commits = []
    m = {
        'version': 1,
        'setup_cmd': "/venv/bin/python -c 'import antlr4, click, sys; sys.path.insert(0, \"/repo/src\"); import yldprolog.engine, yldprolog.compiler'",
        'hooks': {
            'guard': 'YLDPROLOG_VERIF',
            'enable': 'No source hook is committed to /repo: all instrumentation is attached from the harness (ypv/observe.py) to the modules of the working tree at run time; ./check sets YLDPROLOG_VERIF=1 in its workers only for documentation.',
            'baseline_off_cmd': 'cd /repo && /venv/bin/python -m pytest -ra -q -p no:cacheprovider --timeout=900 --continue-on-collection-errors',
            'source_commits': [],
            'add_only': True,
        },
        'engines': [{'name': 'ypv', 'path': 'ypv/', 'serves_properties': [c['property_id'] for c in checks],
                     'kind_free_text': 'stdlib-only Python harness: forked shard workers import /repo/src, attach monitors (sys.monitoring step clock, Variable registry, unraisable hook, ANTLR error events, audit hook), run generated workloads and compare observations with executable models'}],
        'checks': checks,
        'not_applicable': na,
        'notes': 'See DESIGN.md. Exit codes: 0 held, 1 VIOLATION, 2 INCONCLUSIVE. known_findings.json lists open findings (none) and fixed: records of the fix: commits in /repo.',
    }
    with open(os.path.join(HERE, 'MANIFEST.json'), 'w') as f:
        json.dump(m, f, indent=1)
        f.write('\n')
    print('checks:', [c['property_id'] for c in checks], 'not_applicable:', len(na))

if __name__ == '__main__':
    main()
