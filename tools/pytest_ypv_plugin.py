"""pytest plugin: runs the repository's own tests with the harness monitors attached (DESIGN 7.4).
usage: cd /repo && PYTHONPATH=/verif:/verif/tools /venv/bin/python -m pytest -q -p no:cacheprovider -p pytest_ypv_plugin
A monitor that fires here is read as 'too strict' first."""
import gc
import sys
import pytest

STATE = {'unify_yields': 0, 'sides_differ': 0, 'unraisable': [], 'bound_after_test': [], 'tests': 0, 'vars_created': 0}


def pytest_configure(config):
    sys.path.insert(0, '/verif')
    from ypv import observe
    from ypv.terms import snap_real
    E, Cm = observe.import_repo()
    reg = observe.VarRegistry(E)
    reg.install()
    unr = observe.Unraisable()
    unr.install()
    orig = E.unify

    def mon(a, b):
        for x in orig(a, b):
            STATE['unify_yields'] += 1
            sa, sb = snap_real(E, [a]), snap_real(E, [b])
            if sa != sb and ("cyclic",) not in (sa, sb):
                STATE["sides_differ"] += 1
            yield x
    E.unify = mon
    config._ypv = (E, reg, unr)


@pytest.hookimpl(hookwrapper=True)
def pytest_runtest_call(item):
    E, reg, unr = item.config._ypv
    yield
    STATE['tests'] += 1
    gc.collect()
    left = len(reg.bound())
    if left:
        STATE['bound_after_test'].append((item.name, left))
    ev = unr.take()
    if ev:
        STATE['unraisable'].append((item.name, ev[:2]))
    STATE['vars_created'] = reg.created


def pytest_terminal_summary(terminalreporter):
    terminalreporter.write_line('YPV-MONITORS tests=%d unify_yields_checked=%d sides_differ=%d variables_created=%d bound_after_test=%r unraisable=%r' % (
        STATE['tests'], STATE['unify_yields'], STATE['sides_differ'], STATE['vars_created'], STATE['bound_after_test'][:5], STATE['unraisable'][:3]))
