#!/usr/bin/env python3
"""usage: tools/mk_subagent_prompts.py <label> Cxx [Cyy ...]
Creates scratch worktrees /tmp/wt/<Cxx> of /repo HEAD and prompt files /tmp/wt-out/prompt_<label>_<Cxx>.txt for
sub-agents that write ONE hard-to-hit property-breaking change into /tmp/wt-out/<Cxx>/<label>/. The prompt contains only
the property text, the worktree path and the summaries of changes already collected for that property (seeded/*/meta.json)
- nothing else from /verif. Evaluate results with tools/seeded_eval.py <Cxx> <label> [other checks]; remove worktrees with
`git -C /repo worktree remove --force /tmp/wt/<Cxx>` afterwards."""
import glob, json, os, subprocess, sys
HERE = os.path.dirname(os.path.dirname(os.path.abspath(__file__)))
label = sys.argv[1]
props = {json.loads(l)['id']: json.loads(l) for l in open(os.path.join(HERE, 'properties.jsonl'))}
TEMPLATE = open(os.path.join(HERE, 'tools', os.environ.get('YPV_PROMPT_TEMPLATE', 'subagent_prompt_template.txt'))).read()
os.makedirs('/tmp/wt-out', exist_ok=True)
for pid in sys.argv[2:]:
    wt = '/tmp/wt/' + pid
    out = '/tmp/wt-out/' + pid
    os.makedirs('/tmp/wt', exist_ok=True)
    subprocess.run(['git', '-C', '/repo', 'worktree', 'add', '--detach', '-f', wt, 'HEAD'], capture_output=True)
    os.makedirs(out, exist_ok=True)
    taken = []
    for d in sorted(glob.glob(os.path.join(HERE, 'seeded', pid + '-*/'))):
        m = json.load(open(d + 'meta.json'))
        taken.append('  - ' + m.get('summary', '')[:400].replace('\n', ' '))
    p = props[pid]
    txt = (TEMPLATE.replace('{wt}', wt).replace('{out}', out).replace('{label}', label).replace('{title}', p['title'])
           .replace('{statement}', p['statement']).replace('{quant}', p['quantifier']['text']).replace('{pid}', pid)
           .replace('{taken}', '\n'.join(taken) or '  (none)'))
    fn = '/tmp/wt-out/prompt_%s_%s.txt' % (label, pid)
    open(fn, 'w').write(txt)
    print(fn)
