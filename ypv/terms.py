"""Independent term representation used by the reference models, plus the
bridge to the real engine (observe real terms / build real terms).

Terms are tuples:  ('a',name)  ('i',int)  ('s',str: python string constant)
                   ('v',name)  ('c',name,(args...))
"""
import re

NIL = ('a', '[]')


def A(n):
    return ('a', n)


def I(n):
    return ('i', n)


def V(n):
    return ('v', n)


def C(n, *args):
    return ('c', n, tuple(args))


def L(items, tail=NIL):
    r = tail
    for x in reversed(items):
        r = ('c', '.', (x, r))
    return r


def walk(t, s):
    while t[0] == 'v' and t in s:
        t = s[t]
    return t


def resolve(t, s):
    """fully apply substitution s (iterative; terms here are small)."""
    t = walk(t, s)
    if t[0] == 'c':
        return ('c', t[1], tuple(resolve(a, s) for a in t[2]))
    return t


def canon(terms, s):
    """canonical snapshot of a tuple of terms under s: variables numbered by
    first occurrence, so equality = same bindings up to renaming, aliasing
    included."""
    m = {}

    def go(t):
        t = walk(t, s)
        if t[0] == 'v':
            if t not in m:
                m[t] = len(m)
            return ('v', m[t])
        if t[0] == 'c':
            return ('c', t[1], tuple(go(a) for a in t[2]))
        return t
    return tuple(go(t) for t in terms)


def term_vars(t, acc=None):
    if acc is None:
        acc = []
    if t[0] == 'v':
        if t not in acc:
            acc.append(t)
    elif t[0] == 'c':
        for a in t[2]:
            term_vars(a, acc)
    return acc


def term_size(t):
    if t[0] == 'c':
        return 1 + sum(term_size(a) for a in t[2])
    return 1


def is_ground(t):
    if t[0] == 'v':
        return False
    if t[0] == 'c':
        return all(is_ground(a) for a in t[2])
    return True


def anonymise(t):
    """replace every variable by ('v','_') (used where sharing of unbound
    variables is not judged, e.g. findall instances)."""
    if t[0] == 'v':
        return ('v', '_')
    if t[0] == 'c':
        return ('c', t[1], tuple(anonymise(a) for a in t[2]))
    return t


# ---------------------------------------------------------------- real engine

def is_bound(v):
    """is this engine Variable bound right now? (the engine keeps a flag; a refactored engine that drops the flag is
    asked through the public get_value instead, so that the monitors keep judging instead of crashing)"""
    try:
        return bool(v._is_bound)
    except AttributeError:
        return v.get_value() is not v


class Cyclic(Exception):
    """raised by the reference when a unification is subject to occurs check"""


def snap_real(E, terms, cap=20000):
    """Observe real engine terms through the public get_value at every node.
    Returns the same canonical form as canon(). Iterative with a node cap so a
    cyclic structure cannot hang the observer: returns ('cyclic',)."""
    m = {}
    count = [0]

    class _Cap(Exception):
        pass

    def go(t, depth):
        count[0] += 1
        if count[0] > cap or depth > 400:
            raise _Cap()
        t = E.get_value(t)
        if isinstance(t, E.Variable):
            k = id(t)
            if k not in m:
                m[k] = len(m)
            return ('v', m[k])
        if isinstance(t, E.Atom):
            return ('a', t._name)
        if isinstance(t, E.Functor):
            return ('c', t._name, tuple(go(a, depth + 1) for a in t._args))
        if isinstance(t, bool):
            return ('py', repr(t))
        if isinstance(t, int):
            return ('i', t)
        if isinstance(t, str):
            return ('s', t)
        return ('py', repr(t))
    try:
        return tuple(go(t, 0) for t in terms)
    except (_Cap, RecursionError):
        return ('cyclic',)


def snap_real_iter(E, terms, cap=200000):
    """like snap_real but without any Python recursion and without calling engine code (reads the
    binding cells directly), so it also works under a lowered recursion limit (C17)."""
    m = {}
    out = []
    for top in terms:
        # iterative post-order construction
        work = [('visit', top)]
        vals = []
        n = 0
        while work:
            n += 1
            if n > cap:
                return ('cyclic',)
            op, t = work.pop()
            if op == 'build':
                name, k = t
                args = vals[len(vals) - k:]
                del vals[len(vals) - k:]
                vals.append(('c', name, tuple(args)))
                continue
            while isinstance(t, E.Variable) and is_bound(t):
                t = t._value
            if isinstance(t, E.Variable):
                k = id(t)
                if k not in m:
                    m[k] = len(m)
                vals.append(('v', m[k]))
            elif isinstance(t, E.Atom):
                vals.append(('a', t._name))
            elif isinstance(t, E.Functor):
                work.append(('build', (t._name, len(t._args))))
                for a in reversed(t._args):
                    work.append(('visit', a))
            elif isinstance(t, bool):
                vals.append(('py', repr(t)))
            elif isinstance(t, int):
                vals.append(('i', t))
            elif isinstance(t, str):
                vals.append(('s', t))
            else:
                vals.append(('py', repr(t)))
        out.append(vals[0])
    return tuple(out)


def snap_real_raw(E, terms, cap=20000):
    """Observe a real term WITHOUT dereferencing below the top: walks the
    stored structure as is (used by C15 to look at a saved get_value result:
    'contains a Variable?')."""
    count = [0]
    m = {}

    def go(t, depth):
        count[0] += 1
        if count[0] > cap or depth > 400:
            raise RecursionError
        if isinstance(t, E.Variable):
            # a variable object inside a saved value: report whether bound now
            k = id(t)
            if k not in m:
                m[k] = len(m)
            return ('var', m[k])
        if isinstance(t, E.Atom):
            return ('a', t._name)
        if isinstance(t, E.Functor):
            return ('c', t._name, tuple(go(a, depth + 1) for a in t._args))
        if isinstance(t, bool):
            return ('py', repr(t))
        if isinstance(t, int):
            return ('i', t)
        if isinstance(t, str):
            return ('s', t)
        return ('py', repr(t))
    try:
        return tuple(go(t, 0) for t in terms)
    except RecursionError:
        return ('cyclic',)


class DeepKey:
    """a host value whose == is Python code that needs several stack frames (a nested record, a path, a fraction ...)"""
    __slots__ = ('n', 'inner')

    def __init__(self, n, inner=None):
        self.n = n
        self.inner = inner

    def __eq__(self, other):
        return isinstance(other, DeepKey) and self.n == other.n and self.inner == other.inner

    def __hash__(self):
        return hash(self.n)

    def __repr__(self):
        d = 0
        x = self
        while x is not None:
            d += 1
            x = x.inner
        return 'DeepKey(%d,depth=%d)' % (self.n, d)


def _deep(n, depth):
    k = None
    for _ in range(depth):
        k = DeepKey(n, k)
    return k


# other Python constants as terms (API level only), keyed by their repr as snap_real reports them
PYCONST = {repr(x): x for x in (None, 2.5, -0.5, b'a', (), (1, 2), _deep(1, 12), _deep(2, 12), _deep(3, 12))}


def build_real(yp, t, vmap, atomf=None):
    """build an engine term from a tuple term; variables via vmap (name->Variable); atomf (optional) supplies the
    atom objects (atoms held from earlier / made by another engine are the same terms)"""
    k = t[0]
    if k == 'a':
        return atomf(t[1]) if atomf else yp.atom(t[1])
    if k in ('i', 's'):
        return t[1]
    if k == 'py':
        return PYCONST[t[1]]
    if k == 'v':
        if t[1] == '_':
            return yp.variable()
        if t not in vmap:
            vmap[t] = yp.variable()
        return vmap[t]
    if t[1] == '.' and len(t[2]) == 2:
        return yp.listpair(build_real(yp, t[2][0], vmap, atomf), build_real(yp, t[2][1], vmap, atomf))
    return yp.functor(t[1], [build_real(yp, a, vmap, atomf) for a in t[2]])


# ---------------------------------------------------------------- rendering

_PLAIN_ATOM = re.compile(r'[a-z][A-Za-z0-9_]*\Z')


def ratom(n, force_quote=False):
    if not force_quote and _PLAIN_ATOM.match(n) and n not in ('true', 'fail'):
        return n
    if n == '[]' and not force_quote:
        return '[]'
    return "'" + n.replace("'", "\\'") + "'"


def rterm(t, rng=None):
    """render a term as Prolog source. rng (optional) varies the concrete
    syntax: prefix/infix form of =, quoting of plain atoms, spaces."""
    k = t[0]
    if k == 'a':
        return ratom(t[1], bool(rng and rng.random() < 0.1 and t[1] != '[]'))
    if k == 'i':
        return str(t[1])
    if k == 'v':
        return t[1]
    if k == 's':
        raise ValueError('python string constants have no source form')
    if k == 'py':
        return "'<host value %s>'" % t[1].replace("'", '')
    name, args = t[1], t[2]
    if name == '.' and len(args) == 2:
        items = []
        cur = t
        while cur[0] == 'c' and cur[1] == '.' and len(cur[2]) == 2:
            items.append(cur[2][0])
            cur = cur[2][1]
        sep = ', ' if rng and rng.random() < 0.3 else ','
        if cur == NIL:
            return '[' + sep.join(rterm(x, rng) for x in items) + ']'
        if cur[0] == 'v':
            return '[' + sep.join(rterm(x, rng) for x in items) + '|' + rterm(cur, rng) + ']'
        # improper list: canonical functor notation
        return "'.'(" + rterm(args[0], rng) + ',' + rterm(args[1], rng) + ')'
    if name in ('=', '\\=') and len(args) == 2:
        if rng and rng.random() < 0.2:
            return '%s(%s,%s)' % (name, rterm(args[0], rng), rterm(args[1], rng))
        a0 = rterm(args[0], rng)
        a1 = rterm(args[1], rng)
        # operands that are themselves infix terms need parentheses
        if args[0][0] == 'c' and args[0][1] in ('=', '\\=') and len(args[0][2]) == 2:
            a0 = '(' + a0 + ')'
        if args[1][0] == 'c' and args[1][1] in ('=', '\\=') and len(args[1][2]) == 2:
            a1 = '(' + a1 + ')'
        return '%s %s %s' % (a0, name, a1)
    return ratom(name) + '(' + ','.join(rterm(a, rng) for a in args) + ')'


PRI = {'and': 1000, 'then': 1050, 'or': 1100}
OPS = {'and': ',', 'then': '->', 'or': ';'}


def rbody(b, maxpri=1200, minimal=True, rng=None):
    k = b[0]
    if k == 'true':
        return 'true'
    if k == 'fail':
        return 'fail'
    if k == 'cut':
        return '!'
    if k == 'call':
        return rterm(b[1], rng)
    if k == 'not':
        inner = rbody(b[1], 999, minimal, rng)
        return '\\+ ' + inner
    p = PRI[k]
    # right associative: left operand at most p-1, right operand at most p
    sp1 = ' ' if not rng or rng.random() < 0.8 else ('\n    ' if rng.random() < 0.5 else '')
    sp2 = ' ' if not rng or rng.random() < 0.8 else ''
    s = '%s%s%s%s%s' % (rbody(b[1], p - 1, minimal, rng), sp2, OPS[k], sp1, rbody(b[2], p, minimal, rng))
    if p > maxpri or not minimal:
        return '(' + s + ')'
    if rng and rng.random() < 0.05:
        return '(' + s + ')'
    return s


def rclause(h, b, minimal=True, rng=None):
    hs = rterm(h, None)
    if b == ('true',) and not (rng and rng.random() < 0.1):
        s = hs + '.'
    else:
        s = hs + ' :- ' + rbody(b, 1200, minimal, rng) + '.'
    if rng and rng.random() < 0.1:
        s += ' % ' + rng.choice(['c', "it's", 'a :- b.', '"', '(', '!'])
    return s


def rprogram(clauses, minimal=True, rng=None):
    return '\n'.join(rclause(h, b, minimal, rng) for h, b in clauses) + '\n'
