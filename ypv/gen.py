"""Seeded generators: terms, programs, control bodies, queries (DESIGN 3.4).
Every generator is a function of a random.Random."""
from .terms import A, I, V, C, L, NIL

ATOMS = ['a', 'b', 'c']
# atoms whose text looks like something else: a variable of the pool, an internal name of the code generator,
# two arguments, a keyword. They must stay atoms wherever they occur (rendered quoted when necessary).
ODD_ATOMS = ['X', 'Y', 'Z', '_1', 'X1', 'x1', 'x2', 'arg1', 'l1', 'a,b', 'a, b', 'f(a)', '[]', 'yield', 'doBreak', 'cutIf1',
             'X,Y', "it's", 'A b']
# besides ordinary names: names that a compiler-internal naming scheme (for `_`, arguments, loop variables,
# labels) could collide with - every Prolog variable must stay its own variable
VARNAMES = ['X', 'Y', 'Z', 'U', 'W', 'X', 'Y', 'Z', '_1', '_2', 'X1', 'X2', 'L1', 'Arg1', '_G1', '_x1', '_arg1', '__1',
            'A1', 'Var1', 'DoBreak', 'CutIf1', '_l1', 'V1']


def near_reserved_vars():
    """Prolog variable names at and around the names that mean something to Python or to the loaded code's
    context: the name itself, with underscores added or taken away at the end, with one in front, with a digit"""
    import re
    base = ['True', 'False', 'None', '__debug__', '__builtins__', 'ATOM_NIL', '__import__', '__name__', '__class__', '__doc__',
            '__file__', '__spec__', '__loader__', 'Exception', 'NotImplemented', 'Ellipsis', '_', '__', 'YP', 'Atom', 'Variable', 'Functor']
    out = []
    for n in base:
        for v in (n, n + '_', n + '__', n[:-1], n.rstrip('_'), n.rstrip('_') + '_', '_' + n, n + '1', n.lstrip('_'), n.strip('_')):
            if re.match(r'[A-Z_][A-Za-z0-9_]*\Z', v) and v not in out:
                out.append(v)
    return out


NEAR_RESERVED = near_reserved_vars()


def gen_term(rng, vars_, d, anon_ok=True, atoms=ATOMS):
    r = rng.random()
    if d <= 0 or r < 0.35:
        r2 = rng.random()
        if r2 < 0.4 and vars_:
            return rng.choice(vars_)
        if r2 < 0.5 and anon_ok:
            return V('_')
        if r2 < 0.8:
            if rng.random() < 0.12:
                return A(rng.choice(ODD_ATOMS))
            return A(rng.choice(atoms))
        if r2 < 0.9:
            return I(rng.choice([0, 1, 2]))
        return NIL
    if r < 0.6:
        n = rng.choice([1, 2, 2, 3])
        return C(rng.choice(['f', 'g']), *[gen_term(rng, vars_, d - 1, anon_ok, atoms) for _ in range(n)])
    if r < 0.85:
        items = [gen_term(rng, vars_, d - 1, anon_ok, atoms) for _ in range(rng.choice([0, 1, 2, 3]))]
        if not items:
            return NIL
        if rng.random() < 0.4 and (vars_ or anon_ok):
            tail = rng.choice(list(vars_) + ([V('_')] if anon_ok else []))
            return L(items, tail)
        return L(items)
    return rng.choice(vars_) if vars_ else A(rng.choice(atoms))


def conj(goals):
    body = ('true',)
    for g in reversed(goals):
        body = g if body == ('true',) else ('and', g, body)
    return body


def gen_prog_stratified(rng):
    """2-5 predicates, predicate i calls only j<i: termination is structural"""
    npred = rng.choice([2, 3, 4, 5])
    preds = []
    clauses = []
    for pi in range(npred):
        name = 'p%d' % pi
        ar = rng.choice([0, 1, 2, 2, 3])
        preds.append((name, ar))
        for ci in range(rng.choice([1, 2, 3])):
            vars_ = [V(x) for x in sorted(set(rng.sample(VARNAMES, rng.choice([1, 2, 3]))))]
            head = C(name, *[gen_term(rng, vars_, 2) for _ in range(ar)]) if ar else A(name)
            goals = []
            if pi > 0:
                for _ in range(rng.choice([0, 0, 1, 2, 3])):
                    q = rng.choice(preds[:pi])
                    goals.append(('call', C(q[0], *[gen_term(rng, vars_, 1) for _ in range(q[1])]) if q[1] else A(q[0])))
            if rng.random() < 0.25:
                goals.append(('call', C('=', gen_term(rng, vars_, 1), gen_term(rng, vars_, 2))))
            if rng.random() < 0.12:
                goals.append(('call', C('\\=', gen_term(rng, vars_, 1), gen_term(rng, vars_, 1))))
            if rng.random() < 0.08:
                goals.append(('true',))
            if rng.random() < 0.06:
                goals.append(('fail',))
            rng.shuffle(goals)
            clauses.append((head, conj(goals)))
    return clauses, preds


def gen_query_args(rng, arity, qvars):
    return [gen_term(rng, qvars, rng.choice([0, 1, 2]), anon_ok=False) for _ in range(arity)]


# -- recursive templates over random data ------------------------------------

def _rand_list(rng, n=None, atoms=ATOMS, maxn=33):
    if n is None:
        # mostly small; now and then around the sizes where a fast path could switch (16, 32, 64, 128); the largest
        # only where the template does linear work (maxn)
        n = rng.choice([0, 1, 2, 3, 4, 5]) if rng.random() < 0.93 else rng.choice([k for k in (15, 16, 17, 18, 24, 33, 40, 64, 65, 100, 129) if k <= maxn])
    return L([rng.choice([A(x) for x in atoms] + [I(1), C('f', A('a'))]) for _ in range(n)])


def _peano(n):
    t = A('z')
    for _ in range(n):
        t = C('s', t)
    return t


def _rand_tree(rng, d):
    if d <= 0 or rng.random() < 0.3:
        return A('nil')
    return C('t', _rand_tree(rng, d - 1), A(rng.choice(ATOMS)), _rand_tree(rng, d - 1))


X, Y, Z, H, T, R, N, Lv, Rv, Acc = (V(n) for n in ['X', 'Y', 'Z', 'H', 'T', 'R', 'N', 'L', 'R2', 'Acc'])

TEMPLATES = {
    'member': [(C('member', X, L([X], V('_'))), ('true',)),
               (C('member', X, L([V('_')], T)), ('call', C('member', X, T)))],
    'append': [(C('append', NIL, Y, Y), ('true',)),
               (C('append', L([H], T), Y, L([H], R)), ('call', C('append', T, Y, R)))],
    'len': [(C('len', NIL, A('z')), ('true',)),
            (C('len', L([V('_')], T), C('s', N)), ('call', C('len', T, N)))],
    'rev': [(C('rev', NIL, NIL), ('true',)),
            (C('rev', L([H], T), R), ('and', ('call', C('rev', T, Rv)), ('call', C('append', Rv, L([H]), R))))],
    'walk': [(C('walk', A('nil'), NIL), ('true',)),
             (C('walk', C('t', Lv, X, Rv), R), conj([('call', C('walk', Lv, V('A'))), ('call', C('walk', Rv, V('B'))),
                                                      ('call', C('append', V('A'), L([X], V('B')), R))]))],
    'evenodd': [(C('even', NIL), ('true',)),
                (C('even', L([V('_')], T)), ('call', C('odd', T))),
                (C('odd', L([V('_')], T)), ('call', C('even', T)))],
    'sel': [(C('sel', X, L([X], T), T), ('true',)),
            (C('sel', X, L([H], T), L([H], R)), ('call', C('sel', X, T, R)))],
    'perm': [(C('perm', NIL, NIL), ('true',)),
             (C('perm', Lv, L([H], T)), ('and', ('call', C('sel', H, Lv, R)), ('call', C('perm', R, T))))],
    'last': [(A('dummy0'), ('true',)),
             (C('last', L([X]), X), ('true',)),
             (C('last', L([V('_')], T), X), ('call', C('last', T, X)))],
    'dup': [(C('dup', NIL, NIL), ('true',)),
            (C('dup', L([X], T), L([X, X], R)), ('call', C('dup', T, R)))],
    # one variable-to-variable link per recursion level (epsilon rules of difference-list code): the variable
    # bound FIRST is the head of a chain whose end is bound last, by a goal with several answers
    'steps': [(C('skip', V('S'), V('S')), ('true',)),
              (C('steps', NIL, V('S'), V('S')), ('true',)),
              (C('steps', L([V('_')], T), V('S0'), V('S')), ('and', ('call', C('skip', V('S0'), V('S1'))),
                                                            ('call', C('steps', T, V('S1'), V('S'))))),
              (C('col', A('red')), ('true',)), (C('col', C('g', A('green'))), ('true',)), (C('col', A('blue')), ('true',)),
              (C('chain', Lv, R), conj([('call', C('steps', Lv, V('S0'), V('S'))), ('call', C('col', V('S'))),
                                        ('call', C('=', R, V('S0')))])),
              (C('chain2', Lv, R, V('S')), conj([('call', C('steps', Lv, V('S0'), V('S'))), ('call', C('=', R, C('r', V('S0'), V('S0')))),
                                                 ('call', C('col', V('S')))]))],
}


def gen_template_case(rng):
    """returns (clauses, qname, qargs) using the recursive templates"""
    Q0, Q1, Q2 = V('Q0'), V('Q1'), V('Q2')
    kind = rng.choice(['member', 'member2', 'append_split', 'append_fwd', 'append_open', 'len', 'len_gen',
                       'rev', 'walk', 'even', 'perm', 'sel', 'last', 'dup', 'dup_back', 'steps'])
    cl = []
    if kind == 'member':
        cl = TEMPLATES['member']
        q = ('member', [rng.choice([Q0, A('a'), C('f', Q0)]), _rand_list(rng, maxn=129)])
    elif kind == 'member2':
        cl = TEMPLATES['member']
        # list with variables inside: aliasing between answers
        lst = L([rng.choice([Q1, Q2, A('a'), C('f', Q1)]) for _ in range(rng.choice([1, 2, 3, 4]))])
        q = ('member', [rng.choice([Q0, A('a'), C('f', A('b'))]), lst])
    elif kind == 'append_split':
        cl = TEMPLATES['append']
        q = ('append', [Q0, Q1, _rand_list(rng)])
    elif kind == 'append_fwd':
        cl = TEMPLATES['append']
        q = ('append', [_rand_list(rng), rng.choice([Q1, _rand_list(rng)]), Q2])
    elif kind == 'append_open':
        cl = TEMPLATES['append']
        q = ('append', [Q0, rng.choice([Q1, L([A('a')])]), Q2])     # infinitely many answers: compared up to the cap
    elif kind == 'len':
        cl = TEMPLATES['len']
        q = ('len', [_rand_list(rng, maxn=129), Q0])
    elif kind == 'len_gen':
        cl = TEMPLATES['len']
        q = ('len', [Q0, _peano(rng.choice([0, 1, 2, 3, 4]))])
    elif kind == 'rev':
        cl = TEMPLATES['rev'] + TEMPLATES['append']
        q = ('rev', [_rand_list(rng), Q0])
    elif kind == 'walk':
        cl = TEMPLATES['walk'] + TEMPLATES['append']
        q = ('walk', [_rand_tree(rng, 3), Q0])
    elif kind == 'even':
        cl = TEMPLATES['evenodd']
        q = (rng.choice(['even', 'odd']), [_rand_list(rng, rng.choice([0, 1, 2, 3, 6, 7]))])
    elif kind == 'perm':
        cl = TEMPLATES['perm'] + TEMPLATES['sel']
        q = ('perm', [_rand_list(rng, rng.choice([0, 1, 2, 3])), Q0])
    elif kind == 'sel':
        cl = TEMPLATES['sel']
        q = ('sel', [rng.choice([Q0, A('a')]), _rand_list(rng), Q1])
    elif kind == 'last':
        cl = TEMPLATES['last']
        q = ('last', [_rand_list(rng, maxn=129), Q0])
    elif kind == 'steps':
        cl = TEMPLATES['steps']
        lst = _rand_list(rng, rng.choice([0, 1, 2, 5, 15, 16, 17, 18, 19, 25, 33, 40]))
        q = rng.choice([('chain', [lst, Q0]), ('chain2', [lst, Q0, Q1]), ('chain2', [lst, Q0, A('blue')])])
    elif kind == 'dup':
        cl = TEMPLATES['dup']
        q = ('dup', [_rand_list(rng, maxn=129), Q0])
    else:
        cl = TEMPLATES['dup']
        q = ('dup', [Q0, L([rng.choice([A('a'), A('b'), Q1]) for _ in range(rng.choice([0, 2, 4, 3]))])])
    return list(cl), q[0], q[1]


# -- '_' handling: the reference needs each '_' as a distinct variable -------

def uniq_anon(t, cnt):
    if t == ('v', '_'):
        cnt[0] += 1
        return ('v', '_A%d' % cnt[0])
    if t[0] == 'c':
        return ('c', t[1], tuple(uniq_anon(a, cnt) for a in t[2]))
    return t


def uniq_body(b, cnt):
    if b[0] == 'call':
        return ('call', uniq_anon(b[1], cnt))
    if b[0] in ('true', 'fail', 'cut'):
        return b
    if b[0] == 'not':
        return ('not', uniq_body(b[1], cnt))
    return (b[0], uniq_body(b[1], cnt), uniq_body(b[2], cnt))


def uniq_clauses(clauses):
    cnt = [0]
    return [(uniq_anon(h, cnt), uniq_body(b, cnt)) for h, b in clauses]


# -- control bodies (C05/C06) ------------------------------------------------

LEAF_SOLS = [('z', 0), ('o', 1), ('m', 2), ('n', 3)]


def leaf_facts():
    facts = []
    for pn, sols in LEAF_SOLS:
        for i in range(sols):
            facts.append((C(pn, A('%s%d' % (pn, i))), ('true',)))
    # filters over the constants the leaves produce: make control flow depend on earlier bindings
    for c in ('o0', 'm0', 'n0', 'n2'):
        facts.append((C('ev', A(c)), ('true',)))
    for c in ('m1', 'n1'):
        facts.append((C('od', A(c)), ('true',)))
    return facts


def gen_control_case(rng, weights=None, maxdepth=4, allow_cut_p=0.7, nclauses=None):
    """clauses for t/N (1-3 clauses over leaf predicates with 0,1,2,3 solutions;
    every leaf call binds a fresh head variable so an answer identifies the path
    taken) plus a caller top/N+1 with its own alternatives."""
    w = weights or {'and': 0.40, 'or': 0.20, 'ite': 0.18, 'then': 0.10, 'not': 0.12}
    nv = [0]
    nl = [0]

    def newvar():
        nv[0] += 1
        return V('V%d' % nv[0])
    allow_cut = rng.random() < allow_cut_p

    def leaf(cut_ok):
        r = rng.random()
        if r < 0.08:
            return ('true',)
        if r < 0.16:
            return ('fail',)
        if r < 0.30 and cut_ok and allow_cut:
            return ('cut',)
        pn = rng.choice(['z', 'o', 'm', 'm', 'n'])
        if nv[0] and rng.random() < 0.06:
            # output unification: a head variable is given a structure / a constant in the body (after a cut, in a
            # branch, ...): with a caller that already bound that argument this is a test, not an assignment
            return ('call', C('=', V('V%d' % rng.randrange(1, nv[0] + 1)), rng.choice([C('s', A('m0')), C('s', A('n1')), A('m1'), A('o0')])))
        if nv[0] and rng.random() < 0.07:
            # a clause-local variable (not in the head) aliased to a head variable, directly or inside a structure:
            # what a later goal binds through the local name is visible through the head variable
            nl[0] += 1
            hvn = V('V%d' % rng.randrange(1, nv[0] + 1))
            return ('call', C('=', V('L%d' % nl[0]), rng.choice([hvn, hvn, C('s', hvn)])))
        if nl[0] and rng.random() < 0.25:
            lv = V('L%d' % rng.randrange(1, nl[0] + 1))
            return ('call', rng.choice([C(pn, lv), C(pn, lv), C('=', lv, C('s', newvar())), C('ev', lv)]))
        if nv[0] and rng.random() < 0.3:
            # reuse a variable that an earlier goal may have bound: a data-dependent test
            return ('call', C(rng.choice(['ev', 'od', 'ev', 'od', pn]), V('V%d' % rng.randrange(1, nv[0] + 1))))
        return ('call', C(pn, newvar()))

    def body(d, cut_ok):
        if d <= 0 or rng.random() < 0.25:
            return leaf(cut_ok)
        r = rng.random()
        acc = 0
        for k in ('and', 'or', 'ite', 'then', 'not'):
            acc += w[k]
            if r < acc:
                break
        if k == 'and':
            return ('and', body(d - 1, cut_ok), body(d - 1, cut_ok))
        if k == 'or':
            return ('or', body(d - 1, cut_ok), body(d - 1, cut_ok))
        if k == 'ite':
            return ('or', ('then', body(d - 1, False), body(d - 1, cut_ok)), body(d - 1, cut_ok))
        if k == 'then':
            return ('then', body(d - 1, False), body(d - 1, cut_ok))
        return ('not', body(d - 1, False))
    n = nclauses or rng.choice([1, 1, 2, 3])
    bodies = [body(rng.choice(list(range(1, maxdepth + 1))), True) for _ in range(n)]
    vars_ = [V('V%d' % i) for i in range(1, nv[0] + 1)]
    clauses = leaf_facts()
    thead = C('t', *vars_) if vars_ else A('t')
    for b in bodies:
        clauses.append((thead, b))
    tcall = ('call', thead)
    if rng.random() < 0.3:
        # the same predicate NAME with other arities (one clause / two clauses): whatever is decided per predicate
        # (clause count, cut handling, labels) must go by name AND arity
        for ar in rng.sample([0, 1, 2, len(vars_) + 2], 2):
            if ar != len(vars_):
                hv2 = [V('Z%d' % i) for i in range(ar)]
                clauses.insert(rng.randrange(len(clauses) + 1), (C('t', *hv2) if hv2 else A('t'), ('call', C('o', hv2[0] if hv2 else V('_')))))
    if vars_ and rng.random() < 0.3:
        # the caller binds some arguments before the call (queries with bound and partially bound arguments)
        pre = ('call', C('=', rng.choice(vars_), rng.choice([A('m0'), A('n1'), A('o0'), C('s', A('m0')), C('s', A('x')), C('s', V('Pre'))])))
        tcall = ('and', pre, tcall)
    clauses.append((C('top', V('W'), *vars_), ('and', ('call', C('m', V('W'))), tcall)))
    return clauses, 'top', len(vars_) + 1


def body_size(b):
    if b[0] in ('true', 'fail', 'cut', 'call'):
        return 1
    if b[0] == 'not':
        return 1 + body_size(b[1])
    return 1 + body_size(b[1]) + body_size(b[2])


def body_has(b, kind):
    if b[0] == kind:
        return True
    if b[0] in ('true', 'fail', 'cut', 'call'):
        return False
    if b[0] == 'not':
        return body_has(b[1], kind)
    return body_has(b[1], kind) or body_has(b[2], kind)


# -- confusable twins: two terms with the same printed text but different structure ------------------------

def _compounds_with_vars(t, acc):
    if t[0] == 'c':
        if any(a[0] == 'v' and a[1] != '_' for a in t[2]):
            acc.append(t)
        for a in t[2]:
            _compounds_with_vars(a, acc)
    return acc


def _body_terms(b, acc):
    if b[0] == 'call':
        acc.append(b[1])
    elif b[0] in ('and', 'or', 'then'):
        _body_terms(b[1], acc)
        _body_terms(b[2], acc)
    elif b[0] == 'not':
        _body_terms(b[1], acc)
    return acc


def add_confusable_twin(rng, clauses):
    """adds a fact cf(T') where T' is a compound term of the program with one variable replaced by the ATOM of the
    same name ('X' vs X), or `_`-adjacent names; placed before or after the program. Returns the new clause list."""
    cands = []
    for h, b in clauses:
        _compounds_with_vars(h, cands)
        for t in _body_terms(b, []):
            _compounds_with_vars(t, cands)
    if not cands:
        return clauses
    t = rng.choice(cands)
    vs = [a for a in t[2] if a[0] == 'v' and a[1] != '_']
    v = rng.choice(vs)
    twin = ('c', t[1], tuple(A(v[1]) if a == v else a for a in t[2]))
    extra = [(C('cf', twin), ('true',)), (C('cg', t), ('true',))]
    return extra + clauses if rng.random() < 0.5 else clauses + extra
