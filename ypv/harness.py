"""Executor, verdicts, evidence and replay files (DESIGN 2.3-2.7).

A check module provides
    PROPERTY, LEVEL, RULE, ASSUMPTIONS
    plan(tier, seed) -> dict(n=<cases>, deadline=<s>, floor={counter: minimum}, ...)
    setup(tier, seed) -> ctx          (runs inside each forked worker)
    corpus() -> list of pinned cases  (optional)
    run_case(ctx, seed, idx, tier) -> result dict      idx >= 0: generated case
    run_corpus(ctx, item) -> result dict               (optional)
    replay(ctx, witness) -> result dict                (optional)
result dict keys: v (None | dict(kind, detail, witness)), nt (bool non-trivial),
key (hashable canonical case, for distinct counting), c (counters),
sample (optional, JSON-able), discard (optional reason).
"""
import hashlib
import json
import os
import select
import signal
import sys
import time
import traceback

VERIF = os.path.dirname(os.path.dirname(os.path.abspath(__file__)))
NPROC = int(os.environ.get('YPV_NPROC', '0')) or min(16, os.cpu_count() or 4)


class CaseTimeout(BaseException):
    pass


def _alarm(signum, frame):
    raise CaseTimeout()


def h64(obj):
    return hashlib.blake2b(repr(obj).encode('utf8', 'backslashreplace'), digest_size=8).hexdigest()


def jsonable(o, depth=0):
    if depth > 40:
        return '...'
    if isinstance(o, (str, int, float, bool)) or o is None:
        return o
    if isinstance(o, (list, tuple)):
        return [jsonable(x, depth + 1) for x in o]
    if isinstance(o, dict):
        return {str(k): jsonable(v, depth + 1) for k, v in o.items()}
    return repr(o)


class Agg:
    def __init__(self):
        self.counters = {}
        self.keys = set()
        self.samples = []
        self.violations = []
        self.evaluations = 0
        self.discards = {}
        self.inconclusive = []

    def add(self, r, want_samples=4):
        self.evaluations += 1
        for k, n in (r.get('c') or {}).items():
            self.counters[k] = self.counters.get(k, 0) + n
        if r.get('discard'):
            self.discards[r['discard']] = self.discards.get(r['discard'], 0) + 1
        if r.get('nt') and r.get('key') is not None:
            self.keys.add(r['key'] if isinstance(r['key'], str) and len(r['key']) == 16 else h64(r['key']))
        for k in r.get('multi_keys') or ():
            self.keys.add(k)
        if r.get('sample') is not None and len(self.samples) < want_samples:
            self.samples.append(jsonable(r['sample']))
        if r.get('v'):
            if len(self.violations) < 200:
                self.violations.append(jsonable(r['v']))
            self.counters['violations_total'] = self.counters.get('violations_total', 0) + 1

    def dump(self):
        return {'counters': self.counters, 'keys': sorted(self.keys), 'samples': self.samples,
                'violations': self.violations, 'evaluations': self.evaluations,
                'discards': self.discards, 'inconclusive': self.inconclusive}

    def merge(self, d, want_samples=5):
        for k, n in d['counters'].items():
            self.counters[k] = self.counters.get(k, 0) + n
        self.keys.update(d['keys'])
        for s in d['samples']:
            if len(self.samples) < want_samples:
                self.samples.append(s)
        self.violations.extend(d['violations'])
        self.evaluations += d['evaluations']
        for k, n in d['discards'].items():
            self.discards[k] = self.discards.get(k, 0) + n
        self.inconclusive.extend(d['inconclusive'])


def _worker(mod, tier, seed, shard, nshards, plan, corpus_items, wfd):
    agg = Agg()
    try:
        signal.signal(signal.SIGALRM, _alarm)
        ctx = mod.setup(tier, seed)
        t_end = time.time() + plan['deadline']
        per_case = plan.get('case_timeout', 20)
        # corpus first (sharded too)
        for ci, item in enumerate(corpus_items):
            if ci % nshards != shard:
                continue
            try:
                signal.setitimer(signal.ITIMER_REAL, per_case)
                r = mod.run_corpus(ctx, item)
                signal.setitimer(signal.ITIMER_REAL, 0)
            except CaseTimeout:
                agg.inconclusive.append('corpus %d timeout' % ci)
                continue
            r.setdefault('c', {})['corpus_cases'] = 1
            agg.add(r)
        # case idx belongs to shard (idx + idx // nshards) % nshards: every block of nshards consecutive cases is
        # spread over all shards, rotated by one per block, so that "every k-th case is of the expensive kind" does not
        # put all expensive cases into the same one or two workers
        n = plan['n']
        block = 0
        idx = (shard - block) % nshards
        while idx < n:
            if time.time() > t_end:
                agg.counters['stopped_at_deadline'] = agg.counters.get('stopped_at_deadline', 0) + 1
                break
            try:
                signal.setitimer(signal.ITIMER_REAL, per_case)
                r = mod.run_case(ctx, seed, idx, tier)
                signal.setitimer(signal.ITIMER_REAL, 0)
            except CaseTimeout:
                agg.inconclusive.append('case %d timeout' % idx)
                agg.evaluations += 1
                block += 1
                idx = block * nshards + (shard - block) % nshards
                continue
            agg.add(r)
            block += 1
            idx = block * nshards + (shard - block) % nshards
        fin = getattr(mod, 'finish', None)
        if fin:
            extra = fin(ctx)
            for k, v in (extra or {}).items():
                agg.counters[k] = agg.counters.get(k, 0) + v
        out = agg.dump()
    except BaseException:
        signal.setitimer(signal.ITIMER_REAL, 0)
        out = agg.dump()
        out['crash'] = traceback.format_exc()[-3000:]
    data = json.dumps(out).encode()
    with os.fdopen(wfd, 'wb') as f:
        f.write(data)
    os._exit(0)


def run_sharded(mod, tier, seed, plan, corpus_items):
    nshards = plan.get('nshards', NPROC)
    procs = {}
    for shard in range(nshards):
        rfd, wfd = os.pipe()
        pid = os.fork()
        if pid == 0:
            os.close(rfd)
            for fd in [p['rfd'] for p in procs.values()]:
                try:
                    os.close(fd)
                except OSError:
                    pass
            _worker(mod, tier, seed, shard, nshards, plan, corpus_items, wfd)
            os._exit(0)
        os.close(wfd)
        procs[pid] = {'rfd': rfd, 'shard': shard, 'buf': b'', 'done': False}
    deadline = time.time() + plan['deadline'] * 3 + 120   # generous wall-clock watchdog
    total = Agg()
    shard_fail = []
    open_fds = {p['rfd']: pid for pid, p in procs.items()}
    while open_fds:
        left = deadline - time.time()
        if left <= 0:
            break
        r, _, _ = select.select(list(open_fds), [], [], min(left, 5))
        for fd in r:
            chunk = os.read(fd, 1 << 20)
            pid = open_fds[fd]
            if chunk:
                procs[pid]['buf'] += chunk
            else:
                os.close(fd)
                del open_fds[fd]
                procs[pid]['done'] = True
    for fd, pid in list(open_fds.items()):
        try:
            os.kill(pid, signal.SIGKILL)
        except OSError:
            pass
        os.close(fd)
        shard_fail.append('shard %d: watchdog' % procs[pid]['shard'])
    for pid, p in procs.items():
        try:
            _, status = os.waitpid(pid, 0)
        except ChildProcessError:
            status = 0
        if not p['done']:
            continue
        try:
            d = json.loads(p['buf'].decode())
        except Exception:
            sig = status & 0x7f
            shard_fail.append('shard %d: no result (status %d, signal %d)' % (p['shard'], status, sig))
            continue
        if 'crash' in d:
            shard_fail.append('shard %d crashed: %s' % (p['shard'], d['crash']))
        total.merge(d)
    return total, shard_fail, nshards


def load_known():
    p = os.path.join(VERIF, 'known_findings.json')
    try:
        with open(p) as f:
            return json.load(f)
    except FileNotFoundError:
        return {'open': [], 'fixed': []}


def main(mod, argv):
    pid = mod.PROPERTY
    tier = os.environ.get('VERIF_TIER', 'quick')
    replay = None
    args = list(argv)
    while args:
        a = args.pop(0)
        if a in ('quick', 'thorough'):
            tier = a
        elif a == '--replay':
            replay = args.pop(0)
    seed = int(os.environ.get('VERIF_SEED', '1'))
    t0 = time.time()
    if replay:
        with open(replay) as f:
            w = json.load(f)
        ctx = mod.setup(tier, seed)
        r = mod.replay(ctx, w['witness'])
        print(json.dumps(jsonable(r), indent=1)[:6000])
        if r.get('v'):
            print('VIOLATION property=%s replay=%s' % (pid, replay))
            return 1
        print('replay: no violation')
        return 0
    plan = mod.plan(tier, seed)
    try:
        with open(os.path.join(VERIF, 'ypv', 'floors.json')) as f:
            cal = json.load(f).get(pid, {}).get(tier)
        if cal:
            # calibrated floors (tools/calibrate_floors.py: 35% of what a run on the unchanged tree measured);
            # exact requirements (coverage of every label / flag set / exhaustive slice) stay as written in the check
            for k in list(plan.get('floor', {})):
                if k in cal and not k.startswith('case:') and k != 'flag_sets_seen' and not k.startswith('exhaustive'):
                    plan['floor'][k] = cal[k]
    except FileNotFoundError:
        pass
    corpus_items = mod.corpus() if hasattr(mod, 'corpus') else []
    total, shard_fail, nshards = run_sharded(mod, tier, seed, plan, corpus_items)
    wall = time.time() - t0
    known = load_known()
    open_keys = {(k['property'], k['mechanism']): k for k in known.get('open', [])}
    new_v = []
    known_hit = {}
    for v in total.violations:
        k = (pid, v.get('kind'))
        if k in open_keys:
            known_hit.setdefault(k, v)
        else:
            new_v.append(v)
    # verdict
    reasons = []
    floor = plan.get('floor', {})
    for k, need in floor.items():
        if k == 'flag_sets_seen':
            have = len([x for x in total.counters if x.startswith('flagset_')])
        else:
            have = len(total.keys) if k == 'distinct_nontrivial' else total.counters.get(k, 0)
        if have < need:
            reasons.append('counter %s=%d below floor %d' % (k, have, need))
    if len(shard_fail) > max(1, nshards // 10):
        reasons.append('%d of %d shards failed' % (len(shard_fail), nshards))
    nincon = len(total.inconclusive)
    if nincon > max(3, total.evaluations // 100):
        reasons.append('%d cases timed out' % nincon)
    # discards that depend on what the code under test did (as opposed to what the generator or the references
    # did) are zero or nearly zero on the unchanged tree; many of them mean the run decided little
    engine_side = sum(n for k, n in total.discards.items()
                      if k.split(':')[0] in ('library_rejects', 'solo_run_failed', 'thread_did_not_finish', 'child_timeout',
                                             'subprocess_timeout', 'cli_timeout', 'recursion', 'engine_recursion_depth',
                                             'clause_too_large', 'too_large'))
    if engine_side > max(5, total.evaluations // 25):
        reasons.append('%d cases were discarded because of what the code under test did (%s)' % (
            engine_side, ', '.join(sorted(k for k in total.discards if k.split(':')[0] in (
                'library_rejects', 'solo_run_failed', 'thread_did_not_finish', 'child_timeout', 'subprocess_timeout',
                'cli_timeout', 'recursion', 'engine_recursion_depth', 'clause_too_large', 'too_large')))))
    od = total.counters.get('oracle_disagreement', 0)
    if od > max(2, total.evaluations // 1000):
        reasons.append('reference interpreters disagree on %d cases' % od)
    cov = {
        'evaluations': total.evaluations,
        'distinct_nontrivial': len(total.keys),
        'rule': mod.RULE,
        'samples': total.samples[:5],
        'counters': dict(sorted(total.counters.items())),
        'discarded': total.discards,
        'shards': nshards,
        'shard_failures': shard_fail[:5],
        'case_timeouts': nincon,
        'corpus_cases': total.counters.get('corpus_cases', 0),
        'known_findings_hit': [v.get('kind') for v in known_hit.values()],
    }
    if getattr(mod, 'EXHAUSTIVE', None) and mod.EXHAUSTIVE(tier):
        cov['exhaustive_slice'] = mod.EXHAUSTIVE(tier)
    ev = {
        'property_id': pid, 'tier': tier, 'seed': seed, 'level': mod.LEVEL,
        'coverage': cov, 'assumptions': list(mod.ASSUMPTIONS), 'wall_s': round(wall, 2),
        'violations': len(new_v),
        'verdict': 'violated' if new_v else ('inconclusive' if reasons else 'held'),
        'inconclusive_reasons': reasons,
    }
    evdir = os.environ.get('YPV_EVIDENCE_DIR') or os.path.join(VERIF, 'evidence')
    os.makedirs(evdir, exist_ok=True)
    with open(os.path.join(evdir, pid + '.json'), 'w') as f:
        json.dump(ev, f, indent=1, sort_keys=True)
        f.write('\n')
    if not os.environ.get('YPV_EVIDENCE_DIR'):
        # evidence/<id>.json holds the LAST run; a copy per tier is kept next to it so that the quick and the
        # thorough run of the same tree can both be read
        tdir = os.path.join(VERIF, 'evidence_by_tier', tier)
        os.makedirs(tdir, exist_ok=True)
        with open(os.path.join(tdir, pid + '.json'), 'w') as f:
            json.dump(ev, f, indent=1, sort_keys=True)
            f.write('\n')
    print('%s %s seed=%d: %d evaluations, %d distinct non-trivial, %.1fs, counters=%s discarded=%s' % (
        pid, tier, seed, total.evaluations, len(total.keys), wall,
        json.dumps(cov['counters']), json.dumps(total.discards)))
    for s in shard_fail[:5]:
        print('SHARD-FAILURE', s[:2000])
    for (p, kind), v in known_hit.items():
        print('KNOWN-FINDING: property=%s %s' % (p, open_keys[(p, kind)].get('what', kind)))
    if new_v:
        rdir = os.path.join(VERIF, 'replays')
        if os.environ.get('YPV_EVIDENCE_DIR'):
            rdir = os.path.join(os.environ['YPV_EVIDENCE_DIR'], 'replays')
        os.makedirs(rdir, exist_ok=True)
        seen = set()
        for v in new_v[:10]:
            hh = h64(v.get('witness'))
            if hh in seen:
                continue
            seen.add(hh)
            path = os.path.join('replays', '%s-%s.json' % (pid, hh))
            with open(os.path.join(rdir, os.path.basename(path)), 'w') as f:
                json.dump({'property': pid, 'kind': v.get('kind'), 'detail': v.get('detail'),
                           'witness': v.get('witness'), 'seed': seed, 'tier': tier}, f, indent=1)
            print('  kind=%s detail=%s' % (v.get('kind'), json.dumps(v.get('detail'))[:600]))
            print('VIOLATION property=%s replay=%s' % (pid, path))
        return 1
    if reasons:
        print('INCONCLUSIVE property=%s reason=%s' % (pid, '; '.join(reasons)))
        return 2
    print('HELD property=%s on everything explored' % pid)
    return 0
