"""Operation histories executed on the real engine and on both references.

A history is a list of steps; every executor returns a list of observations
(one per step, JSON-able canonical values) that must be equal.

steps:
  ('load', clauses, overwrite)            compiled from rendered text on the real engine
  ('register', name, arity, rows)         Python predicate given as fact table (arity -1 = variadic)
  ('assert_fact', term, append)           yp.assert_fact
  ('clear',)
  ('bind', bid, t1, t2) / ('unbind', bid) outer unification held open (API variables)
  ('start', qid, name, args)              create a query generator (not started)
  ('next', qid)                           -> ('ans', snapshot of args) | ('end',) | ('exc', type)
  ('close', qid)
  ('run', name, args, k)                  start + enumerate (k=None: exhaust, else abandon after k answers)
                                           -> [snapshots]
  ('dump', keys)                          -> {key: [canonical facts]} read back with all-variable queries
"""
from . import refA as RA
from . import refB as RB
from .terms import canon, snap_real, build_real, rprogram, Cyclic, V, term_vars
from .gen import uniq_clauses
from .observe import SCRIPT_FN, StepBudget
from .sto import sto

MAXANS = 40


class Discard(Exception):
    pass


# ------------------------------------------------------------------ reference A

def run_refA(history, budget=60000):
    r = RA.RefA(budget)
    obs = []
    outer = []          # (bid, t1, t2)
    qs = {}

    def s_outer():
        s = {}
        for _, a, b in outer:
            if sto([(a, b)], s):
                raise Discard('sto_outer')
            try:
                s2 = RA.unify(a, b, s)
            except Cyclic:
                raise Discard('sto_outer')
            if s2 is None:
                raise Discard('outer_fails')
            s = s2
        return s
    try:
        for st in history:
            k = st[0]
            if k == 'load':
                r.load(uniq_clauses(st[1]), st[2])
                obs.append(None)
            elif k == 'register':
                r.register(st[1], st[2], st[3])
                obs.append(None)
            elif k == 'load_bad':
                obs.append(None)
            elif k == 'assert_fact':
                r.assert_(st[1], s_outer(), st[2])
                obs.append(None)
            elif k == 'clear':
                r.clear()
                obs.append(None)
            elif k == 'bind':
                outer.append((st[1], st[2], st[3]))
                s_outer()
                obs.append(None)
            elif k == 'unbind':
                outer[:] = [o for o in outer if o[0] != st[1]]
                obs.append(None)
            elif k == 'start':
                args = list(st[3])
                qs[st[1]] = (r.call(('c', st[2], tuple(args)), s_outer()), args)
                obs.append(None)
            elif k == 'next':
                g, args = qs[st[1]]
                try:
                    s = next(g)
                    obs.append(('ans', canon(args, s)))
                except StopIteration:
                    obs.append(('end',))
            elif k == 'close':
                g, args = qs.pop(st[1])
                g.close()
                obs.append(None)
            elif k == 'api':
                # yp.assertz(t) / yp.asserta(t) / yp.retractall(t) called as plain statements: they act at once
                g = r.call(('c', st[1], (st[2],)), s_outer())
                for s in g:
                    pass
                obs.append(None)
            elif k == 'run':
                args = list(st[2])
                out = []
                g = r.call(('c', st[1], tuple(args)), s_outer())
                lim = st[3]
                if lim != 0:
                    for s in g:
                        out.append(canon(args, s))
                        if lim is not None and len(out) >= lim:
                            break
                        if len(out) >= MAXANS:
                            raise Discard('too_many_answers')
                g.close()
                obs.append(out)
            elif k == 'dump':
                d = {}
                for name, n in st[1]:
                    vs = [V('_D%d' % i) for i in range(n)]
                    d['%s/%d' % (name, n)] = [canon(vs, s) for s in r.call(('c', name, tuple(vs)), {})]
                    if len(d['%s/%d' % (name, n)]) > 1000:
                        raise Discard('store_too_big')
                obs.append(d)
            else:
                raise ValueError(st)
    except Cyclic:
        raise Discard('sto')
    except RA.Budget:
        raise Discard('ref_budget')
    except RA.RefError:
        raise Discard('ref_type_error')
    except RecursionError:
        raise Discard('ref_depth')
    return obs, r


# ------------------------------------------------------------------ reference B

def run_refB(history, budget=400000):
    db = RB.DB()
    obs = []
    outer = []
    qs = {}

    def init():
        m = RB.MachineB(db, budget)
        for _, a, b in outer:
            if not m.unify(a, b):
                raise Discard('outer_fails')
        return m
    try:
        for st in history:
            k = st[0]
            if k == 'load':
                db.load(uniq_clauses(st[1]), st[2])
                obs.append(None)
            elif k == 'register':
                db.register(st[1], st[2], st[3])
                obs.append(None)
            elif k == 'load_bad':
                obs.append(None)
            elif k == 'assert_fact':
                m = init()
                t = m.full(st[1])
                key = (t[1], len(t[2]) if t[0] == 'c' else 0)
                rec = (next(db.ids), t)
                old = db.facts.get(key, [])
                db.facts[key] = old + [rec] if st[2] else [rec] + old
                obs.append(None)
            elif k == 'clear':
                db.clear()
                obs.append(None)
            elif k == 'bind':
                outer.append((st[1], st[2], st[3]))
                obs.append(None)
            elif k == 'unbind':
                outer[:] = [o for o in outer if o[0] != st[1]]
                obs.append(None)
            elif k == 'start':
                m = init()
                args = list(st[3])
                qs[st[1]] = (m.run(('c', st[2], tuple(args))), m, args)
                obs.append(None)
            elif k == 'next':
                g, m, args = qs[st[1]]
                try:
                    next(g)
                    obs.append(('ans', m.snapshot(args)))
                except StopIteration:
                    obs.append(('end',))
            elif k == 'close':
                g, m, args = qs.pop(st[1])
                g.close()
                obs.append(None)
            elif k == 'api':
                m = init()
                for _ in m.run(('c', st[1], (st[2],))):
                    pass
                obs.append(None)
            elif k == 'run':
                m = init()
                args = list(st[2])
                out = []
                g = m.run(('c', st[1], tuple(args)))
                lim = st[3]
                if lim != 0:
                    for _ in g:
                        out.append(m.snapshot(args))
                        if lim is not None and len(out) >= lim:
                            break
                        if len(out) >= MAXANS:
                            raise Discard('too_many_answers')
                g.close()
                obs.append(out)
            elif k == 'dump':
                d = {}
                for name, n in st[1]:
                    vs = [V('_D%d' % i) for i in range(n)]
                    m = RB.MachineB(db, budget)
                    d['%s/%d' % (name, n)] = [m.snapshot(vs) for _ in m.run(('c', name, tuple(vs)))]
                obs.append(d)
            else:
                raise ValueError(st)
    except RB.BudgetB:
        raise Discard('refB_budget')
    except RB.RefErrorB:
        raise Discard('refB_type_error')
    except RecursionError:
        raise Discard('refB_depth')
    return obs


# ------------------------------------------------------------------ real engine

class RealHistory:
    """executes a history on one real engine; can be stepped from outside
    (C04 interleaves several of these)"""

    def __init__(self, real, budget=3000000, yp=None, atom_mode='fresh'):
        self.real = real
        self.E = real.E
        self.yp = yp or real.engine()
        # where the atom objects of API-built terms come from: made at the time of use ('fresh'), made once and
        # held by the host program - also across clear() - ('held'), or made by another engine ('other')
        self.atom_mode = atom_mode
        self._held = {}
        self._other = real.engine() if atom_mode == 'other' else None
        self.vmap = {}
        self.qs = {}
        self.held = {}
        self.budget = budget
        self.obs = []
        self.code_cache = {}      # source text -> compiled Python text (threaded runs precompile in the main thread)
        self.saved = []           # (step index, values collected with get_value at an answer, snapshot after the query ended)
        self.unstable = []

    def atomf(self, name):
        if self.atom_mode == 'mixed':
            # every atom object comes from somewhere else than the one before: made now, held from earlier,
            # made by another engine - a fact and the goal that looks it up rarely hold the same object
            self._mix = getattr(self, '_mix', 0) + 1
            k = self._mix % 3
            if k == 0:
                return self.yp.atom(name)
            if k == 1:
                a = self._held.get(name)
                if a is None:
                    a = self._held[name] = self.yp.atom(name)
                return a
            if self._other is None:
                self._other = self.real.engine()
            return self._other.atom(name)
        if self.atom_mode == 'held':
            a = self._held.get(name)
            if a is None:
                a = self._held[name] = self.yp.atom(name)
            return a
        if self.atom_mode == 'other':
            return self._other.atom(name)
        return self.yp.atom(name)

    def terms(self, ts):
        return [build_real(self.yp, t, self.vmap, self.atomf) for t in ts]

    def guarded(self, fn):
        clk = self.real.clock
        if clk:
            clk.start(self.budget)
        try:
            try:
                return fn()
            finally:
                if clk:
                    clk.stop()
        except StopIteration:
            raise
        except StepBudget:
            return ('exc', 'StepBudget(nontermination)')
        except RecursionError:
            return ('exc', 'RecursionError')
        except Exception as e:
            return ('exc', type(e).__name__ + ': ' + str(e)[:120])

    def step(self, st):
        E, yp = self.E, self.yp
        k = st[0]
        o = None
        if k == 'load':
            src = rprogram(st[1])

            def f():
                code = self.code_cache.get(src)
                if code is None:
                    code = self.real.compile(src)
                import zlib
                if zlib.crc32(src.encode('utf8')) % 5 == 0:
                    # every fifth script goes through the engine's file API (what yldpc -o writes, loaded from disk)
                    import os
                    import tempfile
                    fd, path = tempfile.mkstemp(prefix='ypv-script-', suffix='.py')
                    try:
                        with os.fdopen(fd, 'w', encoding='utf8') as fh:
                            fh.write(code)
                        self.loads_from_file = getattr(self, 'loads_from_file', 0) + 1
                        yp.load_script_from_file(path, overwrite=st[2])
                    finally:
                        try:
                            os.unlink(path)
                        except OSError:
                            pass
                else:
                    yp.load_script_from_string(code, SCRIPT_FN, overwrite=st[2])
            o = self.guarded(f)
        elif k == 'register':
            name, arity, rows = st[1], st[2], st[3]
            unify = E.unify

            def pred(*args):
                for row in rows:
                    if len(row) != len(args):
                        continue
                    vm = {}
                    terms = [build_real(yp, t, vm) for t in row]

                    def rec(i):
                        if i == len(terms):
                            yield None
                            return
                        for _ in unify(args[i], terms[i]):
                            yield from rec(i + 1)
                    for _ in rec(0):
                        yield False
            style = st[4] if len(st) > 4 else 'explicit'
            if style == 'inferred' and arity >= 0:
                # the kind of callable rotates: plain function, decorated (functools.wraps), partial, bound method, ...
                from .callables import KINDS, variant
                self.nregistered = getattr(self, 'nregistered', 0) + 1
                import zlib
                kind = KINDS[zlib.crc32(repr((name, arity, self.nregistered, rows)).encode()) % len(KINDS)]
                self.callable_kinds = getattr(self, 'callable_kinds', {})
                self.callable_kinds[kind] = self.callable_kinds.get(kind, 0) + 1
                yp.register_function(name, variant(lambda args: pred(*args), arity, kind))
            elif style == 'variadic':
                yp.register_function(name, pred, arity=-1)
            else:
                yp.register_function(name, pred, arity=arity)
        elif k == 'load_bad':
            # a load that raises must leave the engine unchanged
            src = rprogram(st[1])
            how = st[3]
            try:
                if how == 'python_raises_after_defs':
                    code = self.real.compile(src) + '\nundefined_name_raises_name_error\n'
                elif how == 'python_syntax_error':
                    code = self.real.compile(src) + '\ndef broken(:\n'
                else:
                    code = self.real.compile(src + '\nbroken( :- .\n')
                yp.load_script_from_string(code, SCRIPT_FN, overwrite=st[2])
                o = ('load_did_not_raise',)
            except Exception:
                o = None
        elif k == 'api':
            # the host calls the method and throws the returned object away
            t = build_real(yp, st[2], self.vmap, self.atomf)
            meth = getattr(yp, st[1])

            def f():
                meth(t)
                return None
            o = self.guarded(f)
            self.api_statements = getattr(self, 'api_statements', 0) + 1
        elif k == 'mkvars':
            # the host program creates its query variables early and uses them much later
            for name in st[1]:
                build_real(yp, ('v', name), self.vmap)
            o = len(st[1])
        elif k == 'atoms':
            # atom creation: interned per engine
            o = [yp.atom(n) is yp.atom(n) and yp.atom(n).name() == n for n in st[1]]
        elif k == 'assert_fact':
            t = st[1]
            # a host program that asserts the same term again passes the same OBJECT again (a template whose
            # variables it binds per record): compound arguments are built once per history and reused
            cache = self.__dict__.setdefault('fact_terms', {})
            args = []
            for a in (t[2] if t[0] == 'c' else ()):
                if a[0] == 'c':
                    if a not in cache:
                        cache[a] = build_real(self.yp, a, self.vmap, self.atomf)
                    else:
                        self.reused_objects = getattr(self, 'reused_objects', 0) + 1
                    args.append(cache[a])
                else:
                    args.append(build_real(self.yp, a, self.vmap, self.atomf))
            pname = self.atomf(t[1])
            o = self.guarded(lambda: yp.assert_fact(pname, args, st[2]))
        elif k == 'clear':
            self.__dict__.setdefault('fact_terms', {}).clear()
            o = self.guarded(lambda: yp.clear())
        elif k == 'bind':
            a, b = self.terms([st[2], st[3]])
            g = iter(E.unify(a, b))
            self.held[st[1]] = g
            try:
                next(g)
            except StopIteration:
                o = ('exc', 'outer unification failed')
        elif k == 'unbind':
            self.held.pop(st[1]).close()
        elif k == 'start':
            args = self.terms(st[3])
            self.qs[st[1]] = (yp.query(st[2], args), args)
        elif k == 'next':
            g, args = self.qs[st[1]]

            def f():
                try:
                    next(g)
                except StopIteration:
                    return ('end',)
                return ('ans', snap_real(E, args))
            o = self.guarded(f)
        elif k == 'close':
            g, args = self.qs.pop(st[1])
            o = self.guarded(lambda: g.close())
        elif k == 'run':
            args = self.terms(st[2])
            lim = st[3]

            def f():
                out = []
                kept = []
                g = yp.query(st[1], args)
                if lim != 0:
                    for _ in g:
                        out.append(snap_real(E, args))
                        if len(kept) < 4:
                            # the documented idiom: collect get_value() results while enumerating
                            kept.append([E.get_value(a) for a in args])
                        if lim is not None and len(out) >= lim:
                            break
                        if len(out) >= MAXANS + 5:
                            break
                g.close()
                del g
                for vals in kept:
                    self.saved.append((len(self.obs), vals, snap_real(E, vals)))
                return out
            o = self.guarded(f)
        elif k == 'dump':
            def f():
                d = {}
                for name, n in st[1]:
                    vs = [yp.variable() for _ in range(n)]
                    out = []
                    for _ in yp.query(name, vs):
                        out.append(snap_real(E, vs))
                        if len(out) > 5000:
                            break
                    d['%s/%d' % (name, n)] = out
                return d
            o = self.guarded(f)
        else:
            raise ValueError(st)
        self.obs.append(o)
        return o

    def check_saved(self):
        """answers collected earlier must still denote the same terms (C15, C13): nothing a later
        operation does may change them"""
        for step, vals, snap in self.saved:
            now = snap_real(self.E, vals)
            if now != snap:
                self.unstable.append({'collected_at_step': step, 'then': snap, 'now': now})
        return self.unstable

    def finish(self):
        for g, _ in self.qs.values():
            try:
                g.close()
            except Exception:
                pass
        self.qs = {}
        for g in reversed(list(self.held.values())):
            g.close()
        self.held = {}


STATS = {}


def take_stats():
    """what the real executions did since the last call (kinds of callables registered, loads through the file API)"""
    s = dict(STATS)
    STATS.clear()
    return s


def run_real(real, history, budget=3000000, unstable=None, atom_mode='fresh'):
    h = RealHistory(real, budget, atom_mode=atom_mode)
    try:
        for st in history:
            h.step(st)
    finally:
        h.finish()
        for kd, nk in getattr(h, 'callable_kinds', {}).items():
            STATS['registered_' + kd] = STATS.get('registered_' + kd, 0) + nk
        if getattr(h, 'api_statements', 0):
            STATS['api_statements'] = STATS.get('api_statements', 0) + h.api_statements
        if getattr(h, 'reused_objects', 0):
            STATS['asserted_term_objects_reused'] = STATS.get('asserted_term_objects_reused', 0) + h.reused_objects
        if getattr(h, 'loads_from_file', 0):
            STATS['loads_through_file_api'] = STATS.get('loads_through_file_api', 0) + h.loads_from_file
    if unstable is not None:
        unstable.extend(h.check_saved())
    return h.obs


def normalise(obs):
    """tuples -> lists so observations from different executors compare equal after JSON-like conversion"""
    def n(x):
        if isinstance(x, (list, tuple)):
            return [n(y) for y in x]
        if isinstance(x, dict):
            return {k: n(v) for k, v in x.items()}
        return x
    return n(obs)


def anonymise_obs(o):
    if isinstance(o, list):
        if len(o) == 2 and o[0] == 'v' and isinstance(o[1], int):
            return ['v', '_']
        return [anonymise_obs(x) for x in o]
    if isinstance(o, dict):
        return {k: anonymise_obs(v) for k, v in o.items()}
    return o


def uniq_history(history):
    """every `_` in API-level terms is a distinct variable (the real side builds a
    fresh Variable per `_`)"""
    from .gen import uniq_anon
    cnt = [5000]
    out = []
    for st in history:
        k = st[0]
        if k == 'assert_fact':
            st = (k, uniq_anon(st[1], cnt), st[2])
        elif k == 'bind':
            st = (k, st[1], uniq_anon(st[2], cnt), uniq_anon(st[3], cnt))
        elif k == 'start':
            st = (k, st[1], st[2], [uniq_anon(a, cnt) for a in st[3]])
        elif k == 'run':
            st = (k, st[1], [uniq_anon(a, cnt) for a in st[2]], st[3])
        elif k == 'api':
            st = (k, st[1], uniq_anon(st[2], cnt))
        out.append(st)
    return out


def _max_term_size(x):
    """number of nodes of the largest tuple term anywhere in a history"""
    best = 0
    stack = [x]
    while stack:
        o = stack.pop()
        if isinstance(o, tuple) and o and o[0] in ('c', 'a', 'v', 'i', 's', 'py') and not (len(o) > 1 and isinstance(o[1], tuple) and o[0] != 'c'):
            if o[0] == 'c' and len(o) == 3 and isinstance(o[2], tuple):
                from .terms import term_size
                try:
                    best = max(best, term_size(o))
                    continue
                except Exception:
                    pass
        if isinstance(o, (list, tuple)):
            stack.extend(o)
    return best


def compare_history(real, history, budgetA=60000, atom_mode='fresh'):
    """returns dict(status='ok'|'discard'|'violation', ...)"""
    try:
        hu = uniq_history(history)
        oa, ra = run_refA(hu, budgetA)
        ob = run_refB(hu)
    except Discard as d:
        return {'status': 'discard', 'reason': str(d)}
    na, nb = normalise(oa), normalise(ob)
    if na != nb:
        return {'status': 'discard', 'reason': 'oracle_disagreement', 'A': na, 'B': nb}
    budget = 20000 * ra.steps + 2000000
    # the engine copies and dereferences terms at every use (work quadratic in the size of a term full of
    # variables): the bound separating "slow" from "does not terminate" grows with the largest term of the history
    big = _max_term_size(history)
    if big > 100:
        budget += 2000 * big * big
    unstable = []
    orr = normalise(run_real(real, history, budget, unstable, atom_mode))
    if unstable:
        return {'status': 'violation', 'kind': 'collected_answer_changed_later', 'step': unstable[0]['collected_at_step'],
                'detail': normalise(unstable[0]), 'obs': na, 'refA': ra}
    if 'findall_nonground' in ra.flags:
        # instances with unbound variables: sharing vs copying of those variables is not judged
        na, orr = anonymise_obs(na), anonymise_obs(orr)
    if orr == na:
        return {'status': 'ok', 'obs': na, 'refA': ra}
    i = 0
    while i < len(na) and orr[i] == na[i]:
        i += 1
    kind = 'observation_differs'
    got = orr[i]
    if isinstance(got, list) and len(got) == 2 and got[0] == 'exc':
        kind = 'exception:' + str(got[1]).split(':')[0].split('(')[0]
    return {'status': 'violation', 'kind': kind, 'step': i,
            'detail': {'step_index': i, 'step': normalise(history[i]), 'expected': na[i], 'got': got},
            'obs': na, 'refA': ra}
