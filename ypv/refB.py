"""Reference interpreter B: iterative abstract machine (continuation list +
choicepoint stack + destructive bindings with a trail). No Python recursion in
the search, written independently of refA (different binding representation,
cut = pop the choicepoint stack to a recorded height). Shares only terms.py.

A verdict is only ever issued when A and B agree (DESIGN 3.2).
"""
import itertools
from .terms import L


class BudgetB(Exception):
    pass


class RefErrorB(Exception):
    pass


RESERVED = frozenset(('variable', 'atom', 'functor', 'functor1', 'functor2', 'functor3',
                      'listpair', 'makelist', 'ATOM_NIL', 'unify', 'match_dynamic', 'query',
                      'True', 'False', '__builtins__'))


class DB:
    """predicate table and fact store of reference B"""

    def __init__(self):
        self.defs = {}
        self.variadic = {}
        self.facts = {}
        self.ids = itertools.count(1)
        self.gensym = itertools.count(1)

    def load(self, clauses, overwrite=True):
        seen = {}
        order = []
        for h, b in clauses:
            k = (h[1], len(h[2]) if h[0] == 'c' else 0)
            if k not in seen:
                seen[k] = []
                order.append(k)
            seen[k].append((h, b))
        for k in order:
            grp = ('clauses', seen[k])
            if overwrite or k not in self.defs:
                self.defs[k] = [grp]
            else:
                self.defs[k] = self.defs[k] + [grp]

    def register(self, name, arity, rows):
        grp = ('rows', rows, name)
        if arity < 0:
            self.variadic[name] = grp
        else:
            self.defs[(name, arity)] = [grp]

    def clear(self):
        self.defs = {}
        self.variadic = {}
        self.facts = {}


class MachineB:
    def __init__(self, db, budget=400000, init=None):
        self.db = db
        self.bind = dict(init) if init else {}
        self.trail = []
        self.steps = 0
        self.budget = budget
        self.trace = []

    # ---- bindings
    def deref(self, t):
        b = self.bind
        while t[0] == 'v':
            n = b.get(t)
            if n is None:
                return t
            t = n
        return t

    def full(self, t):
        t = self.deref(t)
        if t[0] == 'c':
            return ('c', t[1], tuple(self.full(a) for a in t[2]))
        return t

    def undo(self, mark):
        tr = self.trail
        b = self.bind
        while len(tr) > mark:
            del b[tr.pop()]

    def unify(self, x, y):
        work = [(x, y)]
        while work:
            a, b = work.pop()
            a = self.deref(a)
            b = self.deref(b)
            if a is b:
                continue
            ka, kb = a[0], b[0]
            if ka == 'v':
                if kb == 'v' and a == b:
                    continue
                self.bind[a] = b
                self.trail.append(a)
            elif kb == 'v':
                self.bind[b] = a
                self.trail.append(b)
            elif ka == 'c':
                if kb != 'c' or a[1] != b[1] or len(a[2]) != len(b[2]):
                    return False
                for i in range(len(a[2])):
                    work.append((a[2][i], b[2][i]))
            else:
                if a != b:
                    return False
        return True

    def copy_fresh(self, t, m):
        if t[0] == 'v':
            r = m.get(t)
            if r is None:
                r = m[t] = ('v', '_H%d' % next(self.db.gensym))
            return r
        if t[0] == 'c':
            return ('c', t[1], tuple(self.copy_fresh(a, m) for a in t[2]))
        return t

    def copy_body(self, b, m):
        k = b[0]
        if k == 'call':
            return ('call', self.copy_fresh(b[1], m))
        if k in ('true', 'fail', 'cut'):
            return b
        if k == 'not':
            return ('not', self.copy_body(b[1], m))
        return (k, self.copy_body(b[1], m), self.copy_body(b[2], m))

    def snapshot(self, terms):
        """canonical form of terms under the current bindings"""
        m = {}

        def go(t):
            t = self.deref(t)
            if t[0] == 'v':
                if t not in m:
                    m[t] = len(m)
                return ('v', m[t])
            if t[0] == 'c':
                return ('c', t[1], tuple(go(a) for a in t[2]))
            return t
        return tuple(go(t) for t in terms)

    # ---- the machine
    def run(self, goal):
        """generator: yields once per solution of the goal term (bindings are in
        self.bind while suspended); on exhaustion all its bindings are undone."""
        mark0 = len(self.trail)
        cps = []
        cont = (('call', goal), 0, None)
        failed = False
        while True:
            if failed:
                failed = False
                if not cps:
                    self.undo(mark0)
                    return
                mark, resume = cps.pop()
                self.undo(mark)
                kind = resume[0]
                if kind == 'goal':
                    cont = resume[1]
                elif kind == 'alts':
                    cont = self.try_alts(cps, resume[1], resume[2], resume[3], resume[4])
                    if cont is False:
                        failed = True
                elif kind == 'segs':
                    cont = self.try_segs(cps, resume[1], resume[2], resume[3], resume[4])
                    if cont is False:
                        failed = True
                elif kind == 'retract':
                    cont = self.try_retract(cps, resume[1], resume[2], resume[3], resume[4], resume[5])
                    if cont is False:
                        failed = True
                continue
            if cont is None:
                yield
                failed = True
                continue
            self.steps += 1
            if self.steps > self.budget:
                raise BudgetB()
            g, cb, rest = cont
            k = g[0]
            if k == 'true':
                cont = rest
            elif k == 'fail':
                failed = True
            elif k == 'cut':
                del cps[cb:]
                cont = rest
            elif k == '$cutto':
                del cps[g[1]:]
                cont = rest
            elif k == 'and':
                cont = (g[1], cb, (g[2], cb, rest))
            elif k == 'or':
                if g[1][0] == 'then':
                    B = len(cps)
                    cps.append((len(self.trail), ('goal', (g[2], cb, rest))))
                    cont = (g[1][1], len(cps), (('$cutto', B), 0, (g[1][2], cb, rest)))
                else:
                    cps.append((len(self.trail), ('goal', (g[2], cb, rest))))
                    cont = (g[1], cb, rest)
            elif k == 'then':
                B = len(cps)
                cont = (g[1], B, (('$cutto', B), 0, (g[2], cb, rest)))
            elif k == 'not':
                B = len(cps)
                cps.append((len(self.trail), ('goal', rest if rest is not None else (('true',), 0, None))))
                cont = (g[1], len(cps), (('$cutto', B), 0, (('fail',), 0, None)))
            elif k == 'call':
                cont = self.do_call(cps, g[1], rest, ())
                if cont is False:
                    failed = True
            else:
                raise ValueError(g)

    def do_call(self, cps, t, rest, extra):
        t = self.deref(t)
        if t[0] == 'a':
            name, args = t[1], ()
        elif t[0] == 'c':
            name, args = t[1], t[2]
        else:
            raise RefErrorB('not callable')
        args = tuple(args) + tuple(extra)
        n = len(args)
        key = (name, n)
        goal = ('c', name, args)
        segs = []
        facts = self.db.facts.get(key)
        if facts:
            segs.append([('fact', ft) for _, ft in facts])
        builtin = None
        if name not in RESERVED:
            sources = self.db.defs.get(key)
            if sources is None and name in self.db.variadic:
                sources = [self.db.variadic[name]]
            if sources is not None:
                for src in sources:
                    if src[0] == 'clauses':
                        segs.append([('clause', h, b) for h, b in src[1]])
                    else:
                        self.trace.append((src[2], self.snapshot(args)))
                        segs.append([('row', r) for r in src[1] if len(r) == n])
            else:
                builtin = key
        if builtin is not None and self.is_builtin(name, n):
            # facts (if any) come first, then the builtin: keep it simple - builtins
            # are deterministic or handled as a final pseudo segment
            segs.append([('builtin', name)])
        if not segs:
            return False
        return self.try_segs(cps, segs, 0, goal, rest)

    @staticmethod
    def is_builtin(name, n):
        if (name, n) in (('=', 2), ('\\=', 2), ('once', 1), ('findall', 3), ('assertz', 1),
                         ('asserta', 1), ('retract', 1), ('retractall', 1)):
            return True
        return name == 'call' and n >= 1

    def try_segs(self, cps, segs, si, goal, rest):
        while si < len(segs):
            pushed = False
            if si + 1 < len(segs):
                cps.append((len(self.trail), ('segs', segs, si + 1, goal, rest)))
                pushed = True
            r = self.try_alts(cps, segs[si], 0, goal, rest)
            if r is not False:
                return r
            if pushed:
                cps.pop()
            si += 1
        return False

    def try_alts(self, cps, seg, i, goal, rest):
        B = len(cps)
        while i < len(seg):
            alt = seg[i]
            self.steps += 1
            if self.steps > self.budget:
                raise BudgetB()
            mark = len(self.trail)
            pushed = False
            if i + 1 < len(seg):
                cps.append((mark, ('alts', seg, i + 1, goal, rest)))
                pushed = True
            kind = alt[0]
            if kind == 'fact':
                ft = self.copy_fresh(alt[1], {})
                if ft[0] == 'a':
                    ft = ('c', ft[1], ())
                if self.unify(goal, ft):
                    return rest
            elif kind == 'clause':
                m = {}
                h = self.copy_fresh(alt[1], m)
                if h[0] == 'a':
                    h = ('c', h[1], ())
                if self.unify(goal, h):
                    return (self.copy_body(alt[2], m), B, rest)
            elif kind == 'row':
                m = {}
                r = ('c', goal[1], tuple(self.copy_fresh(x, m) for x in alt[1]))
                if self.unify(goal, r):
                    return rest
            else:
                r = self.builtin(cps, alt[1], goal[2], rest)
                if r is not False:
                    return r
            self.undo(mark)
            if pushed:
                cps.pop()
            i += 1
        return False

    def builtin(self, cps, name, args, rest):
        n = len(args)
        if name == '=':
            return rest if self.unify(args[0], args[1]) else False
        if name == '\\=':
            mark = len(self.trail)
            ok = self.unify(args[0], args[1])
            self.undo(mark)
            return False if ok else rest
        if name == 'call':
            return self.do_call(cps, args[0], rest, args[1:])
        if name == 'once':
            B = len(cps)
            return self.do_call(cps, args[0], (('$cutto', B), 0, rest), ())
        if name == 'findall':
            res = []
            sub = MachineB(self.db, self.budget - self.steps, None)
            sub.bind = self.bind
            sub.trail = self.trail
            try:
                for _ in sub.run(args[1]):
                    res.append(self.full(args[0]))
            finally:
                self.steps += sub.steps
                self.trace.extend(sub.trace)
            res = [self.copy_fresh(r, {}) for r in res]
            return rest if self.unify(args[2], L(res)) else False
        if name in ('assertz', 'asserta'):
            t = self.full(args[0])
            if t[0] not in ('a', 'c'):
                raise RefErrorB('assert of non-callable')
            key = (t[1], len(t[2]) if t[0] == 'c' else 0)
            rec = (next(self.db.ids), t)
            old = self.db.facts.get(key, [])
            self.db.facts[key] = old + [rec] if name == 'assertz' else [rec] + old
            return rest
        if name == 'retract':
            pat = self.deref(args[0])
            if pat[0] not in ('a', 'c'):
                raise RefErrorB('retract of non-callable')
            key = (pat[1], len(pat[2]) if pat[0] == 'c' else 0)
            snap = self.db.facts.get(key, [])
            return self.try_retract(cps, pat, key, snap, 0, rest)
        if name == 'retractall':
            pat = self.deref(args[0])
            if pat[0] not in ('a', 'c'):
                raise RefErrorB('retractall of non-callable')
            key = (pat[1], len(pat[2]) if pat[0] == 'c' else 0)
            if key in self.db.facts:
                keep = []
                for rec in self.db.facts[key]:
                    mark = len(self.trail)
                    ok = self.unify(self.struct(pat), self.struct(self.copy_fresh(rec[1], {})))
                    self.undo(mark)
                    if not ok:
                        keep.append(rec)
                self.db.facts[key] = keep
            return rest
        raise ValueError(name)

    @staticmethod
    def struct(t):
        return ('c', t[1], ()) if t[0] == 'a' else t

    def try_retract(self, cps, pat, key, snap, i, rest):
        while i < len(snap):
            rec = snap[i]
            self.steps += 1
            if self.steps > self.budget:
                raise BudgetB()
            cur = self.db.facts.get(key, [])
            if any(r[0] == rec[0] for r in cur):
                mark = len(self.trail)
                if self.unify(self.struct(pat), self.struct(self.copy_fresh(rec[1], {}))):
                    if i + 1 < len(snap):
                        cps.append((mark, ('retract', pat, key, snap, i + 1, rest)))
                    self.db.facts[key] = [r for r in cur if r[0] != rec[0]]
                    return rest
                self.undo(mark)
            i += 1
        return False
