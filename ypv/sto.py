"""Conservative detector for unifications that are "subject to occurs check"
(STO, ISO 7.3.3): True if SOME processing order of the Herbrand algorithm on
the equation set could reach an occurs-check situation. Congruence closure of
the equation set under the current substitution (clashes ignored), then cycle
detection on the class graph. Over-approximates, never under-approximates.
Nodes: one per variable, one per *occurrence* of a non-variable term."""


def sto(pairs, s):
    """True if some processing order of the Herbrand algorithm on the equation set could hit an
    occurs check. Conservative: congruence closure (clashes ignored), then cycle detection.
    Nodes: one per variable, one per *occurrence* of a non-variable term."""
    parent = []; term = []; kids = []
    varnode = {}
    def mk(t):
        # returns node index for term occurrence t (under s)
        while t[0] == 'v':
            if t in varnode: return varnode[t]
            if t in s:
                # bound variable: node of the variable is the node of its value (one shared instance)
                idx = len(parent); parent.append(idx); term.append(None); kids.append(())
                varnode[t] = idx
                v = mk(s[t])
                parent[idx] = v   # alias
                return idx
            idx = len(parent); parent.append(idx); term.append(t); kids.append(())
            varnode[t] = idx
            return idx
        idx = len(parent); parent.append(idx); term.append(t); kids.append(())
        if t[0] == 'c':
            kids[idx] = tuple(mk(a) for a in t[2])
        return idx
    def find(k):
        while parent[k] != k:
            parent[k] = parent[parent[k]]; k = parent[k]
        return k
    work = [(mk(a), mk(b)) for a, b in pairs]
    members = {}
    while work:
        a, b = work.pop()
        ra, rb = find(a), find(b)
        if ra == rb: continue
        ma = members.pop(ra, [ra]); mb = members.pop(rb, [rb])
        parent[ra] = rb
        members[rb] = ma + mb
        for x in ma:
            tx = term[x]
            if tx is None or tx[0] != 'c': continue
            for y in mb:
                ty = term[y]
                if ty is None or ty[0] != 'c': continue
                if tx[1] == ty[1] and len(tx[2]) == len(ty[2]):
                    work.extend(zip(kids[x], kids[y]))
    graph = {}
    for i in range(len(parent)):
        if kids[i]:
            graph.setdefault(find(i), set()).update(find(k) for k in kids[i])
    color = {}
    for start in graph:
        if start in color: continue
        stack = [(start, iter(graph.get(start, ())))]
        color[start] = 1
        while stack:
            n, it = stack[-1]
            for m in it:
                c = color.get(m, 0)
                if c == 1: return True
                if c == 0:
                    color[m] = 1; stack.append((m, iter(graph.get(m, ())))); break
            else:
                color[n] = 2; stack.pop()
    return False
