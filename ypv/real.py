"""Driving the real engine/compiler of the working tree and observing it."""
import gc
import sys
from . import observe
from .observe import Ctx, SCRIPT_FN, StepBudget
from .terms import snap_real, build_real


class Real:
    def __init__(self, clock=True, registry=False, antlr=False):
        self.E, self.Cm = observe.import_repo()
        self.clock = None
        if clock:
            self.clock = observe.StepClock(self.E.__file__)
            self.clock.install()
        self.unr = observe.Unraisable()
        self.unr.install()
        self.reg = None
        if registry:
            self.reg = observe.VarRegistry(self.E)
            self.reg.install()
        self.antlr = None
        if antlr:
            self.antlr = observe.AntlrEvents()
            self.antlr.install()

    def compile(self, src):
        return self.Cm.compile_prolog_from_string(src, Ctx)

    def compile_file(self, src):
        """the same text through the file API: written as UTF-8 bytes exactly as given (no newline translation)"""
        import os
        import tempfile
        fd, path = tempfile.mkstemp(prefix='ypv-src-', suffix='.prolog')
        try:
            with os.fdopen(fd, 'wb') as f:
                f.write(src.encode('utf8'))
            return self.Cm.compile_prolog_from_file(path, Ctx)
        finally:
            try:
                os.unlink(path)
            except OSError:
                pass

    def engine(self, code=None):
        yp = self.E.YP()
        if code is not None:
            yp.load_script_from_string(code, SCRIPT_FN)
        return yp

    def build(self, yp, terms, vmap=None):
        vmap = {} if vmap is None else vmap
        return [build_real(yp, t, vmap) for t in terms], vmap

    def snap(self, terms):
        return snap_real(self.E, terms)

    def answers(self, gen, observed, maxans=60, budget=None, each=None):
        """enumerate generator gen, snapshot `observed` (real terms) at every
        yield. Returns (snaps, status, steps). status: 'done' | 'cap' | 'budget' |
        ('exc', typename, message)."""
        out = []
        status = 'done'
        clk = self.clock
        if clk:
            clk.start(budget)
        try:
            try:
                for _ in gen:
                    c0 = clk.count if clk else 0
                    out.append(snap_real(self.E, observed))
                    if clk:
                        clk.count = c0      # the observer's own get_value calls do not count
                    if each:
                        each(len(out))
                    if len(out) >= maxans:
                        status = 'cap'
                        break
            finally:
                steps = clk.stop() if clk else 0
        except StepBudget:
            status = 'budget'
        except RecursionError as e:
            status = ('exc', 'RecursionError', '')
        except Exception as e:
            status = ('exc', type(e).__name__, str(e)[:200])
        finally:
            try:
                gen.close()
            except Exception:
                pass
        return out, status, steps
