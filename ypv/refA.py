"""Reference interpreter A: recursive generators over immutable substitutions.

Standard semantics of the supported subset (DESIGN 3.2). Independent of
yldprolog; shares only terms.py / sto.py with reference B.

Body AST: ('true',) ('fail',) ('cut',) ('call',term) ('and',a,b) ('or',a,b)
          ('then',c,t) ('not',g)
"""
import itertools
from .terms import walk, resolve, L, NIL, Cyclic
from .sto import sto as _sto


class Budget(Exception):
    pass


class RefError(Exception):
    """the program does something the properties leave open (type errors)"""


def occurs(v, t, s):
    st = [t]
    while st:
        x = walk(st.pop(), s)
        if x == v:
            return True
        if x[0] == 'c':
            st.extend(x[2])
    return False


def unify(t1, t2, s):
    """returns the extended substitution or None; raises Cyclic on occurs check"""
    stack = [(t1, t2)]
    cur = s
    copied = False
    while stack:
        a, b = stack.pop()
        a = walk(a, cur)
        b = walk(b, cur)
        if a == b and a[0] != 'c':
            continue
        if a[0] == 'v':
            if not copied:
                cur = dict(cur)
                copied = True
            if b[0] == 'c' and occurs(a, b, cur):
                raise Cyclic()
            cur[a] = b
        elif b[0] == 'v':
            if not copied:
                cur = dict(cur)
                copied = True
            if a[0] == 'c' and occurs(b, a, cur):
                raise Cyclic()
            cur[b] = a
        elif a[0] == 'c' and b[0] == 'c':
            if a[1] != b[1] or len(a[2]) != len(b[2]):
                return None
            stack.extend(zip(a[2], b[2]))
        else:
            if a != b:
                return None
    return cur


def unify_sto(t1, t2, s):
    if _sto([(t1, t2)], s):
        raise Cyclic()
    return unify(t1, t2, s)


class Cut:
    __slots__ = ('n',)

    def __init__(self):
        self.n = 0


RESERVED = ('variable', 'atom', 'functor', 'functor1', 'functor2', 'functor3', 'listpair',
            'makelist', 'ATOM_NIL', 'unify', 'match_dynamic', 'query', 'True', 'False',
            '__builtins__')


def goal_key(t):
    if t[0] == 'a':
        return t[1], ()
    if t[0] == 'c':
        return t[1], t[2]
    raise RefError('not callable: %r' % (t,))


def as_struct(t):
    return ('c', t[1], ()) if t[0] == 'a' else t


class RefA:
    def __init__(self, budget=200000):
        self.defs = {}       # (name, arity) -> list of sources
        self.variadic = {}   # name -> source
        self.facts = {}      # (name, arity) -> list of (id, term)
        self.fresh = itertools.count(1)
        self.factid = itertools.count(1)
        self.steps = 0
        self.budget = budget
        self.depth = 0
        self.maxdepth = 0
        self.trace = []      # calls of foreign predicates: (name, canonical args)
        self.flags = set()
        self.cuts_executed = 0
        self.cut_pruned = 0
        self.commits = 0     # if-then-else / negation with a succeeding condition
        self.sto_checks = 0
        self.bcalls = {}

    # ---- program management (model of the predicate table, C08)
    def load(self, clauses, overwrite=True):
        bykey = {}
        for h, b in clauses:
            name, args = goal_key(h)
            bykey.setdefault((name, len(args)), []).append((h, b))
        for k, cl in bykey.items():
            src = ('clauses', cl)
            if overwrite:
                self.defs[k] = [src]
            else:
                self.defs.setdefault(k, []).append(src)

    def register(self, name, arity, rows):
        """a Python predicate given as a fact table; arity<0 = variadic"""
        src = ('rows', rows, name)
        if arity < 0:
            self.variadic[name] = src
        else:
            self.defs[(name, arity)] = [src]

    def clear(self):
        self.defs = {}
        self.variadic = {}
        self.facts = {}

    # ---- helpers
    def rename(self, t, m):
        if t[0] == 'v':
            if t not in m:
                m[t] = ('v', '_G%d' % next(self.fresh))
            return m[t]
        if t[0] == 'c':
            return ('c', t[1], tuple(self.rename(a, m) for a in t[2]))
        return t

    def rename_body(self, b, m):
        k = b[0]
        if k in ('true', 'fail', 'cut'):
            return b
        if k == 'call':
            return ('call', self.rename(b[1], m))
        if k == 'not':
            return ('not', self.rename_body(b[1], m))
        return (k, self.rename_body(b[1], m), self.rename_body(b[2], m))

    def tick(self):
        self.steps += 1
        if self.steps > self.budget:
            raise Budget()

    def usto(self, a, b, s):
        self.sto_checks += 1
        return unify_sto(a, b, s)

    # ---- control
    def solve(self, g, s, cut):
        self.tick()
        k = g[0]
        if k == 'true':
            yield s
        elif k == 'fail':
            return
        elif k == 'cut':
            cut.n += 1
            self.cuts_executed += 1
            yield s
        elif k == 'and':
            for s1 in self.solve(g[1], s, cut):
                c1 = cut.n
                yield from self.solve(g[2], s1, cut)
                if cut.n != c1:
                    self.cut_pruned += 1
                    return
        elif k == 'or':
            if g[1][0] == 'then':
                s1 = self.first(g[1][1], s)
                if s1 is not None:
                    self.commits += 1
                    yield from self.solve(g[1][2], s1, cut)
                else:
                    yield from self.solve(g[2], s, cut)
            else:
                c0 = cut.n
                yield from self.solve(g[1], s, cut)
                if cut.n != c0:
                    self.cut_pruned += 1
                    return
                yield from self.solve(g[2], s, cut)
        elif k == 'then':
            s1 = self.first(g[1], s)
            if s1 is not None:
                self.commits += 1
                yield from self.solve(g[2], s1, cut)
        elif k == 'not':
            if self.first(g[1], s) is None:
                yield s
            else:
                self.commits += 1
        elif k == 'call':
            yield from self.call(g[1], s)
        else:
            raise ValueError(g)

    def first(self, g, s):
        for s1 in self.solve(g, s, Cut()):
            return s1
        return None

    def call(self, t, s, extra=()):
        self.depth += 1
        if self.depth > self.maxdepth:
            self.maxdepth = self.depth
        try:
            yield from self._call(t, s, extra)
        finally:
            self.depth -= 1

    def _call(self, t, s, extra):
        t = walk(t, s)
        name, args = goal_key(t)
        args = tuple(args) + tuple(extra)
        n = len(args)
        key = (name, n)
        goal = ('c', name, args)
        # the call resolves at the moment it is made: facts (snapshot = logical update view) and the definitions
        # registered now, whatever is loaded or registered while this call is suspended
        facts_now = list(self.facts.get(key, []))
        sources = None
        if name not in RESERVED:
            sources = self.defs.get(key)
            if sources is None and name in self.variadic:
                sources = [self.variadic[name]]
            if sources is not None:
                sources = list(sources)
        for fid, ft in facts_now:
            self.tick()
            ft2 = as_struct(self.rename(ft, {}))
            s1 = self.usto(goal, ft2, s)
            if s1 is not None:
                yield s1
        if name in RESERVED:
            return
        if sources is not None:
            for src in sources:
                yield from self.run_source(src, goal, s)
            return
        # builtins (only when not redefined; the engine registers them as functions
        # under the same keys, so a script defining e.g. once/1 replaces the builtin)
        if name in ('=', '\\=', 'call', 'once', 'findall', 'assertz', 'asserta', 'retract', 'retractall'):
            self.bcalls[name] = self.bcalls.get(name, 0) + 1
        if key == ('=', 2):
            s1 = self.usto(args[0], args[1], s)
            if s1 is not None:
                yield s1
        elif key == ('\\=', 2):
            if self.usto(args[0], args[1], s) is None:
                yield s
        elif name == 'call' and n >= 1:
            yield from self.call(args[0], s, args[1:])
        elif key == ('once', 1):
            for s1 in self.call(args[0], s):
                yield s1
                return
        elif key == ('findall', 3):
            res = []
            for s1 in self.call(args[1], s):
                r = resolve(args[0], s1)
                res.append(r)
            out = []
            for r in res:
                r2 = self.rename(r, {})
                if r2 != r:
                    self.flags.add('findall_nonground')
                out.append(r2)
            s1 = self.usto(args[2], L(out), s)
            if s1 is not None:
                yield s1
        elif name in ('assertz', 'asserta') and n == 1:
            self.assert_(args[0], s, name == 'assertz')
            yield s
        elif key == ('retract', 1):
            pat = walk(args[0], s)
            pname, pargs = goal_key(pat)
            pkey = (pname, len(pargs))
            for fid, ft in list(self.facts.get(pkey, [])):
                self.tick()
                if not any(f[0] == fid for f in self.facts.get(pkey, [])):
                    continue
                ft2 = self.rename(ft, {})
                s1 = self.usto(as_struct(pat), as_struct(ft2), s)
                if s1 is not None:
                    self.facts[pkey] = [f for f in self.facts[pkey] if f[0] != fid]
                    yield s1
        elif key == ('retractall', 1):
            pat = walk(args[0], s)
            pname, pargs = goal_key(pat)
            pkey = (pname, len(pargs))
            keep = []
            for fid, ft in self.facts.get(pkey, []):
                ft2 = self.rename(ft, {})
                if self.usto(as_struct(pat), as_struct(ft2), s) is None:
                    keep.append((fid, ft))
            if pkey in self.facts:
                self.facts[pkey] = keep
            yield s
        # unknown predicate: fails

    def run_source(self, src, goal, s):
        if src[0] == 'clauses':
            cut = Cut()
            for h, b in src[1]:
                self.tick()
                m = {}
                h2 = as_struct(self.rename(h, m))
                s1 = self.usto(goal, h2, s)
                if s1 is None:
                    continue
                yield from self.solve(self.rename_body(b, m), s1, cut)
                if cut.n:
                    self.cut_pruned += 1
                    break
        else:
            rows, name = src[1], src[2]
            from .terms import canon
            self.trace.append((name, canon(goal[2], s)))
            for row in rows:
                if len(row) != len(goal[2]):
                    continue
                self.tick()
                m = {}
                r2 = ('c', goal[1], tuple(self.rename(x, m) for x in row))
                s1 = self.usto(goal, r2, s)
                if s1 is not None:
                    yield s1

    def assert_(self, t, s, append=True):
        t = resolve(t, s)
        name, args = goal_key(t)
        key = (name, len(args))
        rec = (next(self.factid), t)
        lst = list(self.facts.get(key, []))
        if append:
            lst.append(rec)
        else:
            lst.insert(0, rec)
        self.facts[key] = lst

    def query(self, name, args, s=None):
        s = s or {}
        return self.call(('c', name, tuple(args)), s)
