"""Instrumentation applied from the harness (DESIGN 2.2). Nothing here edits
/repo: monitors are attached to the loaded modules of the working tree."""
from .terms import is_bound
import os
import sys
import weakref
import gc

REPO = os.environ.get('YPV_REPO', '/repo')
SCRIPT_FN = '<ypv-script>'


def import_repo():
    """import yldprolog from the working tree (YPV_REPO overrides /repo for
    self-tests on scratch copies)."""
    src = os.path.join(REPO, 'src')
    if sys.path[0] != src:
        sys.path.insert(0, src)
    for m in list(sys.modules):
        if m == 'yldprolog' or m.startswith('yldprolog.'):
            mod = sys.modules[m]
            f = getattr(mod, '__file__', '') or ''
            if f and not f.startswith(src):
                del sys.modules[m]
    import yldprolog.engine as E
    import yldprolog.compiler as Cm
    assert E.__file__.startswith(src), (E.__file__, src)
    return E, Cm


class Ctx:
    """compiler options object: everything off"""
    debug_filename = ''
    debug_parser = False
    debug_generator = False
    current_source_file = ''
    outf = None


# ------------------------------------------------------------ step clock

class StepBudget(BaseException):
    """raised from the monitoring callback when the engine-step budget is spent"""


class StepClock:
    """logical clock: counts PY_START / PY_RESUME / PY_THROW events of code that
    lives in engine.py or in a loaded script."""
    TOOL = 4

    def __init__(self, engine_file):
        self.engine_file = engine_file
        self.count = 0
        self.limit = None
        self.active = False
        self._interesting = {}

    def _cb(self, code, *a):
        ok = self._interesting.get(code)
        if ok is None:
            fn = code.co_filename
            ok = self._interesting[code] = (fn == self.engine_file or fn == SCRIPT_FN)
        if not ok:
            return sys.monitoring.DISABLE
        self.count += 1
        if self.limit is not None and self.count > self.limit:
            self.limit = None
            raise StepBudget()

    def _cb_throw(self, code, *a):
        # PY_THROW events cannot be disabled per location: never return DISABLE
        ok = self._interesting.get(code)
        if ok is None:
            fn = code.co_filename
            ok = self._interesting[code] = (fn == self.engine_file or fn == SCRIPT_FN)
        if ok:
            self.count += 1

    def install(self):
        m = sys.monitoring
        if m.get_tool(self.TOOL) is None:
            m.use_tool_id(self.TOOL, 'ypv-clock')
        ev = m.events
        m.register_callback(self.TOOL, ev.PY_START, self._cb)
        m.register_callback(self.TOOL, ev.PY_RESUME, self._cb)
        m.register_callback(self.TOOL, ev.PY_THROW, self._cb_throw)
        self._events = ev.PY_START | ev.PY_RESUME | ev.PY_THROW

    def start(self, limit=None):
        self.count = 0
        self.limit = limit
        sys.monitoring.set_events(self.TOOL, self._events)
        self.active = True

    def stop(self):
        sys.monitoring.set_events(self.TOOL, 0)
        self.active = False
        self.limit = None
        return self.count


# ------------------------------------------------------------ variable registry

class VarRegistry:
    """weak set of every engine Variable constructed after install()"""

    def __init__(self, E):
        self.E = E
        self.live = weakref.WeakSet()
        self.created = 0
        self._orig = None

    def install(self):
        E = self.E
        orig = E.Variable.__init__
        reg = self

        def __init__(self, *a, **kw):
            orig(self, *a, **kw)
            reg.created += 1
            reg.live.add(self)
        self._orig = orig
        E.Variable.__init__ = __init__

    def uninstall(self):
        if self._orig is not None:
            self.E.Variable.__init__ = self._orig
            self._orig = None

    def bound(self):
        """list of live registered variables that are currently bound"""
        return [v for v in list(self.live) if is_bound(v)]

    def state(self):
        return {id(v): is_bound(v) for v in list(self.live)}

    def gc_scan_bound(self):
        """cross-check: every Variable the garbage collector knows"""
        V = self.E.Variable
        return [o for o in gc.get_objects() if type(o) is V and is_bound(o)]


# ------------------------------------------------------------ unraisable hook

class Unraisable:
    def __init__(self):
        self.events = []
        self._old = None

    def install(self):
        self._old = sys.unraisablehook

        def hook(u):
            self.events.append((type(u.exc_value).__name__, str(u.exc_value)[:200],
                                repr(u.object)[:120]))
        sys.unraisablehook = hook

    def take(self):
        e, self.events = self.events, []
        return e


# ------------------------------------------------------------ ANTLR error events

class AntlrEvents:
    def __init__(self):
        self.events = []
        self._orig = None

    def install(self):
        from antlr4.error.ErrorListener import ProxyErrorListener, ConsoleErrorListener
        orig = ProxyErrorListener.syntaxError
        ev = self.events

        def syntaxError(self, recognizer, offendingSymbol, line, column, msg, e):
            ev.append((type(recognizer).__name__, line, column, str(msg)[:120]))
            return orig(self, recognizer, offendingSymbol, line, column, msg, e)
        ProxyErrorListener.syntaxError = syntaxError
        # keep the console quiet: the default listener prints to stderr
        ConsoleErrorListener.syntaxError = lambda self, *a, **k: None
        self._orig = orig

    def take(self):
        e = list(self.events)
        del self.events[:]
        return e
