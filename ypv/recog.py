"""Independent recogniser for the language of src/yldprolog/prolog.g4, written
from the grammar text (not from the generated parser): hand lexer (longest
match, literal tokens before named rules, STRING extended through \' the way
ANTLR resolves it, % comments need a line end) and a memoised
set-of-end-positions recogniser over the token grammar (ambiguity-safe).
Also returns the clause heads (name/arity) of an accepted program."""
import re

LITS = ['\\==', '\\=', '\\+', ':-', '->', '==', '=<', '>=', '.', ',', ';', '(', ')', '/', '|', '!', '[', ']', '=', '<', '>', '-', '+']
BINOPS = {'=', '\\=', '==', '\\==', '<', '>', '=<', '>='}
UNOPS = {'-', '+'}
class LexError(Exception): pass

def lex(s):
    toks = []
    i = 0; n = len(s)
    while i < n:
        c = s[i]
        if c in ' \t\r\n':
            i += 1; continue
        if c == '%':
            j = i + 1
            while j < n and s[j] not in '\r\n': j += 1
            if j >= n: raise LexError('comment without line end at %d' % i)
            i = j + 1; continue
        if c == "'":
            # longest match of ' ( ~' | \' )* '
            j = i + 1; end = None
            while j < n:
                if s[j] == "'":
                    if s[j-1] == '\\' and j - 1 > i:
                        end = j          # may close here or continue (escape)
                        j += 1; continue
                    end = j; break
                j += 1
            if end is None: raise LexError('unterminated string at %d' % i)
            toks.append(('STRING', s[i:end+1])); i = end + 1; continue
        if c.isascii() and (c.isupper() or c == '_'):
            m = re.compile(r'[A-Za-z0-9_]*').match(s, i + 1)
            toks.append(('VARIABLE', s[i:m.end()])); i = m.end(); continue
        if c.isascii() and c.islower():
            m = re.compile(r'[A-Za-z0-9_]*').match(s, i + 1)
            t = s[i:m.end()]
            toks.append(('TRUE' if t == 'true' else 'FAIL' if t == 'fail' else 'ATOM', t)); i = m.end(); continue
        if c.isascii() and c.isdigit():
            m = re.compile(r'[0-9]*').match(s, i + 1)
            toks.append(('NUMERAL', s[i:m.end()])); i = m.end(); continue
        for l in LITS:   # ordered longest first for shared prefixes
            if s.startswith(l, i):
                k = 'BINOP' if l in BINOPS else 'UNOP' if l in UNOPS else l
                toks.append((k, l)); i += len(l); break
        else:
            raise LexError('bad char %r at %d' % (c, i))
    return toks

class Rec:
    def __init__(self, toks):
        self.t = toks; self.n = len(toks)
        self.memo = {}
    def k(self, i): return self.t[i][0] if i < self.n else 'EOF'
    # each nonterminal: function pos -> frozenset of end positions
    def m(self, name, i):
        key = (name, i)
        if key in self.memo: return self.memo[key]
        self.memo[key] = frozenset()   # guard
        r = getattr(self, name)(i)
        self.memo[key] = r
        return r
    def tok(self, kind, i): return {i + 1} if self.k(i) == kind else set()
    def atom(self, i): return frozenset({i + 1}) if self.k(i) in ('ATOM', 'NUMERAL', 'STRING') else frozenset()
    def termlist(self, i):
        out = {i}
        cur = set(self.m('term', i))
        out |= cur
        while cur:
            nxt = set()
            for j in cur:
                if self.k(j) == ',':
                    nxt |= self.m('term', j + 1)
            nxt -= out
            out |= nxt; cur = nxt
        return frozenset(out)
    def base(self, i):
        out = set()
        k = self.k(i)
        if k in ('ATOM', 'NUMERAL', 'STRING'):
            out.add(i + 1)
            if self.k(i + 1) == '(':
                for j in self.m('termlist', i + 2):
                    if self.k(j) == ')': out.add(j + 1)
        if k == 'ATOM' and self.k(i + 1) == '/' and self.k(i + 2) == 'NUMERAL': out.add(i + 3)
        if k == 'VARIABLE': out.add(i + 1)
        if k == 'BINOP' and self.k(i + 1) == '(':
            for j in self.m('term', i + 2):
                if self.k(j) == ',':
                    for j2 in self.m('term', j + 1):
                        if self.k(j2) == ')': out.add(j2 + 1)
        if k == '(':
            for j in self.m('term', i + 1):
                if self.k(j) == ')': out.add(j + 1)
        if k == '[':
            for j in self.m('termlist', i + 1):
                if self.k(j) == ']': out.add(j + 1)
            for j in self.m('term', i + 1):
                ends = {j}
                if self.k(j) == ',':
                    ends |= self.m('termlist', j + 1)
                for e in ends:
                    if self.k(e) == '|' and self.k(e + 1) == 'VARIABLE' and self.k(e + 2) == ']': out.add(e + 3)
        return frozenset(out)
    def unary(self, i):
        j = i
        while self.k(j) == 'UNOP': j += 1
        if j == i: return self.m('base', i)
        # UNOP+ term : after prefix ops a full term follows
        return self.m('term', j) if False else self.m('base', j) if False else self._after_unops(i, j)
    def _after_unops(self, i, j):
        # UNOP term where term may itself include binops; language-wise UNOP* base (BINOP ...)* handled by term loop
        return self.m('base', j)
    def term(self, i):
        out = set()
        cur = set(self.m('unary', i))
        out |= cur
        while cur:
            nxt = set()
            for j in cur:
                if self.k(j) == 'BINOP':
                    nxt |= self.m('unary', j + 1)
            nxt -= out
            out |= nxt; cur = nxt
        return frozenset(out)
    def simplepred(self, i):
        out = set(self.m('term', i))
        if self.k(i) in ('TRUE', 'FAIL', '!'): out.add(i + 1)
        return frozenset(out)
    def pu(self, i):
        j = i
        while self.k(j) == '\\+': j += 1
        out = set(self.m('simplepred', j))
        if self.k(j) == '(':
            for e in self.m('pe', j + 1):
                if self.k(e) == ')': out.add(e + 1)
        return frozenset(out)
    def pe(self, i):
        out = set()
        cur = set(self.m('pu', i)); out |= cur
        while cur:
            nxt = set()
            for j in cur:
                if self.k(j) in (',', '->', ';'):
                    nxt |= self.m('pu', j + 1)
            nxt -= out
            out |= nxt; cur = nxt
        return frozenset(out)
    def clause(self, i):
        out = set()
        if self.k(i) == ':-':
            for j in self.m('simplepred', i + 1):
                if self.k(j) == '.': out.add(j + 1)
            return frozenset(out)
        for j in self.m('simplepred', i):
            if self.k(j) == '.': out.add(j + 1)
            if self.k(j) == ':-':
                for e in self.m('pe', j + 1):
                    if self.k(e) == '.': out.add(e + 1)
        return frozenset(out)
    def program(self):
        cur = {0}; seen = {0}
        while cur:
            nxt = set()
            for i in cur:
                nxt |= self.m('clause', i)
            nxt -= seen; seen |= nxt; cur = nxt
        return self.n in seen

def accepts(s):
    try:
        toks = lex(s)
    except LexError:
        return False
    return Rec(toks).program()



def unquote(s):
    """text of a STRING token -> atom name ( \\' stands for a quote; the
    property excludes other backslashes, which the implementation drops)"""
    body = s[1:-1]
    out = []
    i = 0
    while i < len(body):
        if body[i] == '\\':
            i += 1
            continue
        out.append(body[i])
        i += 1
    return ''.join(out)


def heads(toks):
    """clause heads of an accepted token list: list of (name, arity) or None for
    directives, ('?',) for heads that are not atom / atom(args) (operators,
    variables, lists, numbers: the compiler reports those or they are not callable)"""
    out = []
    seg = []
    for t in toks:
        if t[0] == '.':
            out.append(_head(seg))
            seg = []
        else:
            seg.append(t)
    return out


def _head(seg):
    if seg and seg[0][0] == ':-':
        return None
    h = []
    for t in seg:
        if t[0] == ':-':
            break
        h.append(t)
    # strip balanced outer parentheses
    while len(h) >= 2 and h[0][0] == '(' and _match(h, 0) == len(h) - 1:
        h = h[1:-1]
    if len(h) == 1 and h[0][0] in ('ATOM', 'STRING'):
        return (_name(h[0]), 0)
    if len(h) >= 3 and h[0][0] in ('ATOM', 'STRING') and h[1][0] == '(' and _match(h, 1) == len(h) - 1:
        inner = h[2:-1]
        if not inner:
            return (_name(h[0]), 0)
        depth = 0
        n = 1
        for t in inner:
            if t[0] in ('(', '['):
                depth += 1
            elif t[0] in (')', ']'):
                depth -= 1
            elif t[0] == ',' and depth == 0:
                n += 1
        return (_name(h[0]), n)
    return ('?',)


def _match(h, i):
    depth = 0
    for j in range(i, len(h)):
        if h[j][0] in ('(', '['):
            depth += 1
        elif h[j][0] in (')', ']'):
            depth -= 1
            if depth == 0:
                return j
    return -1


def _name(t):
    return unquote(t[1]) if t[0] == 'STRING' else t[1]


def analyse(s, deep=False):
    """-> dict(accept=bool, reason=str, heads=[...])"""
    import sys
    try:
        toks = lex(s)
    except LexError as e:
        return {'accept': False, 'reason': 'lex: ' + str(e)}
    old = sys.getrecursionlimit()
    try:
        sys.setrecursionlimit(max(old, 20000))
        ok = Rec(toks).program()
    except RecursionError:
        return {'accept': None, 'reason': 'recogniser recursion'}
    finally:
        sys.setrecursionlimit(old)
    if not ok:
        return {'accept': False, 'reason': 'syntax'}
    return {'accept': True, 'reason': '', 'heads': heads(toks), 'ntokens': len(toks)}
