"""Random sentences of prolog.g4 (token lists), covering every alternative of
every rule, and single-edit corruptions of them."""

KEY_ATOMS = ['foo', 'bar', 'a', 'b', 'c', 'p', 'q', 'loves', 'x_1', 'aB9', 'call', 'once', 'findall', 'truex', 'failing']
# words that mean something to other Prolog systems (declarations, module system, control): here they are ordinary
# atoms, and a directive that starts with one of them is parsed like any other
DIRECTIVE_WORDS = ['dynamic', 'discontiguous', 'multifile', 'initialization', 'module', 'use_module', 'ensure_loaded', 'op',
                   'table', 'set_prolog_flag', 'include', 'meta_predicate', 'import', 'export']
VARS = ['X', 'Y', 'Z', '_', '_G1', 'Tail', 'ATOM_NIL', 'True', '__x__']
STRINGS = ["'build/*'", "'*/tmp'", "'/* not a comment */'", "'hello world'", "'it\\'s'", "'a\nb'", "''", "'%not a comment'", "'é ü'", "'[]'", "'X'", "'\"'", "'foo'", "'1'"]
NUMS = ['0', '1', '42', '007', '123456789012']
BINOPS = ['=', '\\=', '==', '\\==', '<', '>', '=<', '>=']
UNOPS = ['-', '+']


def atom(rng, plain=False):
    r = rng.random()
    if plain or r < 0.7:
        return [rng.choice(KEY_ATOMS)]
    if r < 0.85:
        return [rng.choice(STRINGS)]
    return [rng.choice(NUMS)]


def termlist(rng, d, allow_empty=True):
    n = rng.choice([0, 1, 2, 3]) if allow_empty else rng.choice([1, 2, 3])
    out = []
    for i in range(n):
        if i:
            out.append(',')
        out += term(rng, d - 1)
    return out


def term(rng, d):
    r = rng.random()
    if d <= 0 or r < 0.30:
        r2 = rng.random()
        if r2 < 0.45:
            return atom(rng)
        if r2 < 0.85:
            return [rng.choice(VARS)]
        return [rng.choice(KEY_ATOMS), '/', rng.choice(NUMS)]
    if r < 0.55:
        return atom(rng, plain=rng.random() < 0.85) + ['('] + termlist(rng, d) + [')']
    if r < 0.62:
        return [rng.choice(UNOPS)] + term(rng, d - 1)
    if r < 0.72:
        return term(rng, d - 1) + [rng.choice(BINOPS)] + term(rng, d - 1)
    if r < 0.77:
        return [rng.choice(BINOPS), '('] + term(rng, d - 1) + [','] + term(rng, d - 1) + [')']
    if r < 0.82:
        return ['('] + term(rng, d - 1) + [')']
    if r < 0.92:
        return ['['] + termlist(rng, d) + [']']
    t = ['['] + term(rng, d - 1)
    if rng.random() < 0.5:
        t += [','] + termlist(rng, d, allow_empty=rng.random() < 0.2)
    return t + ['|', rng.choice(VARS), ']']


def callable_term(rng, d):
    r = rng.random()
    if r < 0.25:
        return [rng.choice(KEY_ATOMS)]
    if r < 0.85:
        return [rng.choice(KEY_ATOMS), '('] + termlist(rng, d, allow_empty=rng.random() < 0.1) + [')']
    if r < 0.95:
        return term(rng, d - 1) + [rng.choice(['=', '\\='])] + term(rng, d - 1)
    return term(rng, d)


def simplepred(rng, d, wild=False):
    r = rng.random()
    if r < 0.08:
        return ['true']
    if r < 0.16:
        return ['fail']
    if r < 0.24:
        return ['!']
    return term(rng, d) if wild else callable_term(rng, d)


def predexpr(rng, d, wild=False):
    r = rng.random()
    if d <= 0 or r < 0.35:
        return simplepred(rng, 2, wild)
    if r < 0.45:
        return ['\\+'] + predexpr(rng, d - 1, wild)
    if r < 0.70:
        return predexpr(rng, d - 1, wild) + [','] + predexpr(rng, d - 1, wild)
    if r < 0.80:
        return predexpr(rng, d - 1, wild) + ['->'] + predexpr(rng, d - 1, wild)
    if r < 0.90:
        return predexpr(rng, d - 1, wild) + [';'] + predexpr(rng, d - 1, wild)
    return ['('] + predexpr(rng, d - 1, wild) + [')']


def clause(rng, wild=False):
    r = rng.random()
    if r < 0.04:
        # a directive in the style of other Prolog systems: keyword, then a term (what the grammar can express of it)
        w = rng.choice(DIRECTIVE_WORDS)
        k = rng.random()
        if k < 0.5:
            return [':-', w, '('] + term(rng, 1) + [')', '.']
        return [':-', w, '(', rng.choice(KEY_ATOMS), '/', rng.choice(NUMS), ')', '.']
    if r < 0.08:
        return [':-'] + simplepred(rng, 2, wild) + ['.']
    if wild:
        head = simplepred(rng, 2, True)
    else:
        head = [rng.choice(KEY_ATOMS)]
        if rng.random() < 0.8:
            head += ['('] + termlist(rng, 2, allow_empty=rng.random() < 0.05) + [')']
        if rng.random() < 0.05:
            head = ['('] + head + [')']
    if rng.random() < 0.4:
        return head + ['.']
    return head + [':-'] + predexpr(rng, rng.choice([1, 2, 3]), wild) + ['.']


def program(rng, wild=False):
    toks = []
    for _ in range(rng.choice([1, 2, 3, 4])):
        toks += clause(rng, wild)
    return toks


WORD = set('abcdefghijklmnopqrstuvwxyzABCDEFGHIJKLMNOPQRSTUVWXYZ0123456789_')


def join(rng, toks, trailing=True):
    """token list -> text with random layout; tokens that would merge are separated"""
    out = []
    prev = ''
    for t in toks:
        sep = ''
        need = bool(prev) and ((prev[-1] in WORD and t[0] in WORD) or (prev[-1] in '=<>\\-+:;,.|!/' and t[0] in '=<>\\-+:;,.|!/')
                               or prev[-1] == "'" or t[0] == "'" or (prev == '.' ))
        r = rng.random()
        if need or r < 0.35:
            sep = ' ' if r < 0.85 else rng.choice(['\n', '  ', '\t', ' % comment\n', '\r\n'])
        out.append(sep)
        out.append(t)
        prev = t
    s = ''.join(out)
    if trailing:
        s += rng.choice(['\n', '', ' ', '\n% end\n', '\n\n'])
    return s


JUNK_TOKENS = ['#', '$', '"', 'é', '\x00', '.', ',', ';', '(', ')', '[', ']', '|', "'", '%', ':-', '->', '\\+', '=', '!',
               'a', 'X', '1', '_', '-', '/', 'true', 'fail', '\\', '&', '{', '}', '^', '~', '?', '@', '`', '*', ':']


def token_edits(rng, toks, cap=400):
    """single token-level edits: every deletion, every duplication, every adjacent swap, random insertions"""
    n = len(toks)
    edits = []
    for i in range(n):
        edits.append(('del', i, toks[:i] + toks[i + 1:]))
        edits.append(('dup', i, toks[:i + 1] + toks[i:]))
        if i + 1 < n and toks[i] != toks[i + 1]:
            edits.append(('swap', i, toks[:i] + [toks[i + 1], toks[i]] + toks[i + 2:]))
    for _ in range(max(8, n // 2)):
        i = rng.randrange(n + 1)
        j = rng.choice(JUNK_TOKENS)
        edits.append(('ins:' + repr(j), i, toks[:i] + [j] + toks[i:]))
    if len(edits) > cap:
        edits = rng.sample(edits, cap)
    return edits


def char_edits(rng, text, cap=300):
    """truncation at every character, plus random character deletions / foreign insertions"""
    out = []
    n = len(text)
    idx = list(range(n))
    if n > cap:
        idx = sorted(rng.sample(idx, cap))
    for i in idx:
        out.append(('trunc', i, text[:i]))
    for _ in range(min(n, 40)):
        i = rng.randrange(n + 1)
        out.append(('cdel', i, text[:i] + text[i + 1:]))
        j = rng.choice(['#', '$', '"', 'é', '\x00', "'", '%', '\\', '\x0c', '€', '`', '.', ')', ' '])
        out.append(('cins:' + repr(j), i, text[:i] + j + text[i:]))
    return out
