"""C11 - whatever the compiler accepts loads and defines exactly the program's predicates."""
import ast
import inspect
import random
from .. import gramgen, recog, gen
from ..real import Real
from ..observe import Ctx, SCRIPT_FN, StepBudget
from ..refA import RESERVED

PROPERTY = 'C11'
LEVEL = 'exploration'
RULE = ('inputs: grammar-derived programs (as in C10) and a boundary generator: numerals with leading zeros and up to '
        '4300 digits, variables named like Python constants / dunder names / engine API names, keywords and API names '
        'as predicate names, quoted and operator predicate names, empty and failing bodies at every arity, '
        'conjunctions of 1..40 goals, nestings of 1..25 if-then-else / disjunction / negation / parentheses, terms '
        'nested 1..120 deep, lists of 1..400 elements, 1..60 arguments, 1..300 clauses per predicate, same name with '
        'several arities. For every input the compiler ACCEPTS: the output must compile() as Python; its module body '
        'must be exactly one FunctionDef per clause-head name/arity (heads from the independent recogniser); '
        'load_script_from_string must add exactly those keys to the engine; each must be a generator function; the '
        'first answers of a query on every defined (non-reserved) predicate with fresh variables must not raise '
        'NameError/TypeError/AttributeError/UnboundLocalError/SyntaxError. A compiler exception (e.g. "clause too '
        'large") means the input is not accepted. Non-trivial = accepted program containing a boundary form; '
        'distinct = hash of the text')
ASSUMPTIONS = ['clause heads are computed by ypv/recog.py', 'names of the engine API are reserved (never callable, C08): '
               'their definitions are checked for loading but not called',
               'numerals above CPython\'s 4300-digit int/str conversion limit are outside the explored space']
RULE_ADDED = (' Added after the rounds of independently written changes (DESIGN.md 12.2): ' +
              'variable names at and next to every reserved name (underscores added or removed at either end); names containing Python keywords in failing bodies; partial lists and terms nested up to the 200-bracket limit; numerals of thousands of digits.')
RULE = RULE + RULE_ADDED

BAD_AT_CALL = ('NameError', 'TypeError', 'AttributeError', 'UnboundLocalError', 'SyntaxError', 'IndentationError', 'KeyError', 'IndexError', 'ValueError')


def plan(tier, seed):
    if tier == 'quick':
        return {'n': 30000, 'deadline': 150,
                'floor': {'distinct_nontrivial': 2500, 'accepted': 5000, 'loaded': 5000, 'predicates_called': 8000,
                          'boundary_accepted': 2500, 'compiler_reported_too_large': 100}}
    return {'n': 580000, 'deadline': 540,
            'floor': {'distinct_nontrivial': 40000, 'accepted': 80000, 'loaded': 80000, 'predicates_called': 150000,
                      'boundary_accepted': 40000, 'compiler_reported_too_large': 2000}}


def setup(tier, seed):
    return {'real': Real(clock=True)}


PYNAMES = ['True', 'False', 'None', '__debug__', 'ATOM_NIL', '__builtins__', '__import__', '__name__', 'True_', 'None_',
           'ATOM_NIL_', 'Exception', 'NotImplemented', 'Ellipsis', '__class__', '_', '__', 'X1', 'Arg1', 'L1', 'DoBreak', 'CutIf1']
PYNAMES = PYNAMES + [v for v in gen.NEAR_RESERVED if v not in PYNAMES]
KEYWORDS = ['class', 'def', 'if', 'for', 'import', 'lambda', 'pass', 'yield', 'return', 'while', 'not', 'is', 'in',
            'query', 'atom', 'variable', 'unify', 'functor', 'makelist', 'match_dynamic', 'listpair', 'x1', 'arg1', 'l1',
            'doBreak', 'cutIf1', 'print', 'eval', 'exec', 'self']


def nest(kind, n, leaf='q'):
    b = leaf
    for i in range(n):
        if kind == 'ite':
            b = '(q -> %s ; q)' % b
        elif kind == 'ite_cond':
            b = '(%s -> q ; q)' % b
        elif kind == 'or':
            b = '(%s ; q)' % b
        elif kind == 'not':
            b = '\\+ %s' % b
        elif kind == 'paren':
            b = '(%s)' % b
        elif kind == 'then':
            b = '(q -> %s)' % b
        elif kind == 'and_left':
            b = '(%s, q)' % b
    return b


def gen_boundary(rng):
    """-> (text, tag)"""
    k = rng.choice(['numeral', 'pyvar', 'kwpred', 'quotedhead', 'ophead', 'failbody', 'longconj', 'nesting', 'deepterm',
                    'longlist', 'manyargs', 'manyclauses', 'arities', 'mixed'])
    if k == 'numeral':
        d = rng.choice([1, 2, 5, 20, 300, 4299, 4300, 4301, 5000])
        num = ''.join(rng.choice('0123456789') for _ in range(d))
        if rng.random() < 0.5:
            num = '0' * rng.choice([1, 2, 5]) + num
        form = rng.choice(['foo(%s).', 'foo(X) :- X = %s.', 'foo([%s, a]).', 'foo(f(%s), %s).', 'foo(X) :- bar(%s, X).\nbar(1,a).'])
        return form.replace('%s', num), k
    if k == 'pyvar':
        v = rng.choice(PYNAMES)
        w = rng.choice(PYNAMES)
        form = rng.choice(['foo(%v) :- bar(%v).\nbar(a).', 'foo(%v, %w) :- %v = %w.', 'foo(%v) :- %w = [], %v = %w.',
                           'foo([%v|%w]) :- bar(%w).\nbar([]).', 'foo(%v) :- findall(%w, bar(%w), %v).\nbar(1).',
                           'foo(%v) :- \\+ bar(%v), (bar(%w) -> %v = %w ; true).\nbar(zz).', 'foo(%v, %v, %w).',
                           # every syntactic position a variable can stand in: list tail, nested tail, goal in a variable ...
                           'q([H|%w], []).', 'foo([a,b|%v]).', 'foo(X) :- X = [1|%w], %w = [].', 'foo(f(g([%v|%w]))).', 'foo(%v) :- call(%v).',
                           'foo(%v, L) :- L = [%v, [%v|%w]].'])
        return form.replace('%v', v).replace('%w', w), k
    if k == 'kwpred':
        n = rng.choice(KEYWORDS)
        m = rng.choice(KEYWORDS)
        form = rng.choice(['%n(a).', '%n.', '%n(X) :- %m(X).\n%m(b).', 'foo(X) :- %n(X), %m.\n%n(1).\n%m.', '%n(a,b).\n%n(c).'])
        return form.replace('%n', n).replace('%m', m), k
    if k == 'quotedhead':
        n = rng.choice(["'hello world'", "'Foo'", "'é'", "'ﬁ'", "''", "'1a'", "'a-b'", "'a.b'", "'x(): pass\nimport os\ndef y'",
                        "'foo'", "'__init__'", "'a\nb'", "'a b'", "'None'", "'𝐱'", "'ª'", "'x́'"])
        form = rng.choice(['%n(a).', '%n.', '%n(X) :- foo(X).\nfoo(a).', 'bar(X) :- %n(X).'])
        return form.replace('%n', n), k
    if k == 'ophead':
        return rng.choice(['a = b.', 'X = Y :- true.', '=(a,b).', '- a.', '+ a :- b.', 'a \\= b.', 'a < b.', '(a = b).', 'a == b :- c.']), k
    if k == 'failbody':
        ar = rng.choice([0, 1, 2, 3])
        # names that contain Python keywords / generator-internal words: textual shortcuts in a code generator key on them
        hn = rng.choice(['p', 'p', 'expected_yield', 'yield_of', 'my_return', 'for_each', 'doBreak_x', 'if_false', 'pass_on', 'x_yield_y'])
        head = hn + ('(' + ','.join(rng.choice(['X', 'a', '_', '[H|T]', 'f(X)', 'Yield', 'yield', "'yield False'"]) for _ in range(ar)) + ')' if ar else '')
        body = rng.choice(['fail', 'true', '\\+ true', '(fail ; fail)', '(fail -> true)', '\\+ fail, fail', 'q, fail', 'fail, q',
                           '(fail -> true ; fail)', '!, fail', 'fail, !', '(q, fail ; fail)', '\\+ \\+ fail', '(true -> fail)',
                           '(fail ; fail), q', '\\+ q, fail', '((fail))', 'true, true', '!'])
        extra = rng.choice(['', '\n' + head + '.', '\nq.', '\nq :- fail.'])
        body = body.replace('q', rng.choice(['q', 'q', 'yield', 'bond_yield(Y)', 'return', 'crop(Yield)', "'yield'"]))
        extra = extra.replace('q', 'q') if 'q' in body else extra
        return '%s :- %s.%s' % (head, body, extra), k
    if k == 'longconj':
        # lengths everywhere, and dense around the largest clause Python can hold (20 nested blocks)
        n = rng.randrange(1, 41) if rng.random() < 0.5 else rng.choice([15, 16, 17, 18, 19, 20, 21, 22])
        goal = rng.choice(['q', 'q(X)', 'X = a', 'true', '\\+ q'])
        head = rng.choice(['p', 'p(a)', 'p(X,Y)', 'p(a,b,[c])'])
        # ... ending in a goal that compiles to little or nothing (dead branches, negations, cuts)
        final = rng.choice(['', '', '', '(fail -> q ; fail)', '(fail, q -> q ; fail, q)', '\\+ true', '(fail ; fail)', '(true -> fail)', '!',
                            '(q -> true ; fail)', '(fail -> true)', '\\+ \\+ fail', '(q ; fail)', '(fail -> q ; q)'])
        goals = [goal] * n + ([final] if final else [])
        return 'q.\nq(a).\n%s :- %s.' % (head, ', '.join(goals)), k
    if k == 'nesting':
        n = rng.randrange(1, 26)
        kind = rng.choice(['ite', 'ite_cond', 'or', 'not', 'paren', 'then', 'and_left'])
        return 'q.\np :- %s.' % nest(kind, n), k + ':' + kind
    if k == 'deepterm':
        n = rng.choice([1, 5, 20, 40, 60, 80, 95, 100, 110, 120])
        kind = rng.choice(['f', 'list', 'paren', 'unop'])
        t = 'a'
        for _ in range(n):
            t = {'f': 'f(%s)', 'list': '[%s]', 'paren': '(%s)', 'unop': '- %s'}[kind] % t
        return rng.choice(['p(%s).', 'p(X) :- X = %s.']) % t, k + ':' + kind
    if k == 'longlist':
        n = rng.choice([1, 10, 100, 200, 400])
        return 'p([%s]).' % ','.join(rng.choice(['a', 'X', '1', '_', '[]']) for _ in range(n)), k
    if k == 'manyargs':
        n = rng.choice([1, 5, 20, 40, 60])
        return 'p(%s).\nq :- p(%s).' % (','.join('a%d' % i for i in range(n)), ','.join('_' for i in range(n))), k
    if k == 'manyclauses':
        n = rng.choice([1, 10, 100, 300])
        return '\n'.join('p(%d).' % i for i in range(n)) + '\nq(X) :- p(X).', k
    if k == 'arities':
        return 'p.\np(a).\np(a,b).\np :- p(_).\np(X,Y,Z) :- p(X), p(Y,Z).\n', k
    toks = gramgen.program(rng, wild=rng.random() < 0.2)
    return gramgen.join(rng, toks), 'grammar'


def judge(ctx, text, tag, c):
    real = ctx['real']
    E = real.E
    w = {'text': text if len(text) < 3000 else text[:1500] + ' ... ' + text[-1500:], 'tag': tag}
    try:
        code = real.Cm.compile_prolog_from_string(text, Ctx)
    except RecursionError:
        c['compiler_raised'] = c.get('compiler_raised', 0) + 1
        c['compiler_recursion_error'] = c.get('compiler_recursion_error', 0) + 1
        return None, False
    except Exception as e:
        c['compiler_raised'] = c.get('compiler_raised', 0) + 1
        if 'too large' in str(e):
            c['compiler_reported_too_large'] = c.get('compiler_reported_too_large', 0) + 1
        return None, False
    c['accepted'] = c.get('accepted', 0) + 1
    an = recog.analyse(text)
    if an['accept'] is not True:
        # C10's subject; not judged here
        c['accepted_but_recogniser_rejects'] = c.get('accepted_but_recogniser_rejects', 0) + 1
        return None, False
    heads = [h for h in an['heads'] if h is not None]
    if any(h == ('?',) for h in heads):
        c['unknown_head_forms'] = c.get('unknown_head_forms', 0) + 1
        return None, False
    want = sorted(set('%s_%d' % h for h in heads))
    # 1. the output is Python and consists of function definitions only
    try:
        tree = ast.parse(code)
        compile(code, '<out>', 'exec')
    except (SyntaxError, ValueError, MemoryError, RecursionError) as e:
        return {'kind': 'output_is_not_loadable_python', 'detail': {'error': type(e).__name__ + ': ' + str(e)[:160]}, 'witness': w}, True
    other = [type(n).__name__ for n in tree.body if not isinstance(n, ast.FunctionDef)]
    if other:
        return {'kind': 'output_contains_other_statements', 'detail': {'statements': other[:5]}, 'witness': w}, True
    got = sorted(n.name for n in tree.body)
    if got != want:
        return {'kind': 'defined_functions_differ_from_heads', 'detail': {'expected': want[:20], 'got': got[:20]}, 'witness': w}, True
    # 2. loading adds exactly those keys, each a generator function
    yp = real.engine()
    before = dict(yp.eval_context)
    try:
        yp.load_script_from_string(code, SCRIPT_FN)
    except Exception as e:
        return {'kind': 'load_raises', 'detail': {'error': type(e).__name__ + ': ' + str(e)[:160]}, 'witness': w}, True
    c['loaded'] = c.get('loaded', 0) + 1
    added = sorted(k for k, v in yp.eval_context.items() if k not in before or before[k] is not v)
    if added != want:
        return {'kind': 'context_keys_differ_from_heads', 'detail': {'expected': want[:20], 'got': added[:20]}, 'witness': w}, True
    for k in added:
        if not inspect.isgeneratorfunction(yp.eval_context[k]):
            return {'kind': 'not_a_generator_function', 'detail': {'key': k}, 'witness': w}, True
    # 3. every defined predicate is callable. Programs that use the meta/database builtins are
    # only loaded, not run: ill-typed uses (call/0, call(1), assertz(X)) raise inside the engine,
    # which is about those builtins (C09), not about what the compiler emitted
    import re as _re
    if _re.search(r'\b(call|once|findall|asserta|assertz|retract|retractall)\b', text):
        c['not_run_uses_meta_builtins'] = c.get('not_run_uses_meta_builtins', 0) + 1
        return None, True
    for name, ar in sorted(set(heads))[:12]:
        if name in RESERVED or name in yp.eval_blacklist:
            c['reserved_names_defined'] = c.get('reserved_names_defined', 0) + 1
            continue
        vs = [yp.variable() for _ in range(ar)]
        real.clock.start(200000)
        try:
            try:
                n = 0
                for _ in yp.query(name, vs):
                    n += 1
                    if n >= 3:
                        break
            finally:
                real.clock.stop()
        except StepBudget:
            pass
        except RecursionError:
            c['recursion_at_call'] = c.get('recursion_at_call', 0) + 1
        except Exception as e:
            if type(e).__name__ in BAD_AT_CALL:
                return {'kind': 'defined_predicate_not_callable', 'detail': {'predicate': '%s/%d' % (name, ar), 'error': type(e).__name__ + ': ' + str(e)[:160]}, 'witness': w}, True
            c['other_exception_at_call'] = c.get('other_exception_at_call', 0) + 1
        c['predicates_called'] = c.get('predicates_called', 0) + 1
    return None, True


def run_case(ctx, seed, idx, tier):
    rng = random.Random((seed * 1000003 + idx) * 7 + 11)
    text, tag = gen_boundary(rng)
    c = {'tag_' + tag.split(':')[0]: 1}
    v, accepted = judge(ctx, text, tag, c)
    nt = accepted and tag != 'grammar'
    if nt:
        c['boundary_accepted'] = 1
    r = {'c': c, 'nt': nt, 'key': text}
    if v:
        r['v'] = v
        r['nt'] = True
    elif nt:
        r['sample'] = {'tag': tag, 'text': text[:160]}
    return r


def corpus():
    return [{'text': t, 'tag': 'corpus'} for t in [
        'foo(01).', 'foo(True) :- bar(True).\nbar(a).', "'hello world'(a).", 'p :- fail.', 'p :- q, fail.\nq.',
        'q.\np :- ' + ', '.join(['q'] * 19) + '.', 'q.\np :- ' + ', '.join(['q'] * 20) + '.', 'q.\np :- ' + ', '.join(['q'] * 25) + '.',
        'foo(ATOM_NIL, L) :- L = [], ATOM_NIL = a.', 'a = b.', 'foo(None, __debug__) :- None = __debug__.',
        'p(a) :- fail.\np(b).', 'foo(00000).', 'class(a).\ndef :- class(_).',
        'p(' + 'f(' * 98 + 'a' + ')' * 98 + ').', 'p(' + 'f(' * 100 + 'a' + ')' * 100 + ').', 'p(' + '[' * 120 + 'a' + ']' * 120 + ').',
        'p([' + ','.join(['a'] * 250) + '|T]).', 'p(X) :- X = ' + '- ' * 110 + 'a.',
    ]]


def run_corpus(ctx, item):
    c = {}
    v, accepted = judge(ctx, item['text'], item['tag'], c)
    r = {'c': c, 'nt': accepted, 'key': item['text']}
    if v:
        r['v'] = v
    return r


def replay(ctx, w):
    c = {}
    v, accepted = judge(ctx, w['text'], w.get('tag', ''), c)
    return {'v': v, 'accepted': accepted, 'counters': c}
