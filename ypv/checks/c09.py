"""C09 - call/N, once/1, findall/3, = and \\= agree with their standard definitions."""
import random
from .. import gen, diff
from ..real import Real
from ..terms import V, A, C, L, NIL, I, term_vars, rprogram, snap_real
from .common import result_from_diff, diff_replay

PROPERTY = 'C09'
LEVEL = 'exploration'
RULE = ('generated programs whose clause bodies use call/1..3 (goal inline, atom, compound with missing '
        'arguments, goal in a variable bound at run time by = or passed in by the query), once/1, '
        'findall/3 (templates X, f(X,Y), [X|Y]; bag unbound, [], partial list), = and \\=, nested in each '
        'other (once(call(G,X)), findall in findall), with goals that have 0, 1 or many solutions and '
        'unknown predicates, surrounded by backtracking goals; also the builtins invoked directly through '
        'yp.query. All variables of the clause, including those local to the meta-called goal, are '
        'observed at every answer (so a binding leaked by findall or \\= is seen). Non-trivial = the '
        'reference executed at least one meta builtin and the query has an answer or >= 4 steps; '
        'distinct = hash of program text and query')
ASSUMPTIONS = ['reference interpreters A and B agree', 'goals that are not callable at run time '
               '(unbound, integer) are type errors in Prolog: discarded, not judged',
               'findall instances containing unbound variables are compared modulo variable identity '
               '(sharing vs copying of unbound variables is not judged)',
               'STO unifications discarded']
RULE_ADDED = (' Added after the rounds of independently written changes (DESIGN.md 12.2): ' +
              "reload histories (meta-calls before and after the goal's predicate is redefined by load / register / assert); closures over wd/5..wd/15 with up to 15 extra arguments.")
RULE = RULE + RULE_ADDED

FACTS = [
    (C('foo', A('a')), ('true',)), (C('foo', A('b')), ('true',)), (C('foo', A('c')), ('true',)),
    (C('one', I(1)), ('true',)),
    (C('bar', A('a'), I(1)), ('true',)), (C('bar', A('a'), I(2)), ('true',)), (C('bar', A('b'), I(3)), ('true',)),
    (C('tri', A('a'), I(1), A('x')), ('true',)), (C('tri', A('b'), I(2), A('y')), ('true',)),
    (A('yes'), ('true',)), (A('twice'), ('true',)), (A('twice'), ('true',)), (A('no'), ('fail',)),
    (C('nv', C('f', V('_'))), ('true',)), (C('nv', C('g', V('X'), V('X'))), ('true',)),
    (C('r', V('X')), ('and', ('call', C('foo', V('X'))), ('call', C('\\=', V('X'), A('b'))))),
]
# wide predicates wd/K (one name, many arities): closures over them take many extra arguments
WIDE = [5, 7, 8, 9, 10, 12, 15]
WIDE_FACTS = []
for _k in WIDE:
    WIDE_FACTS.append((C('wd', *[A('w%d_%d' % (_k, i)) for i in range(_k)]), ('true',)))
    WIDE_FACTS.append((C('wd', *[A('w%d_%d' % (_k, i)) if i % 3 else A('x') for i in range(_k)]), ('true',)))


def plan(tier, seed):
    if tier == 'quick':
        return {'n': 16000, 'deadline': 150,
                'floor': {'call_with_8_extra_arguments': 1, 'distinct_nontrivial': 2000, 'b_call': 3000, 'b_once': 1500, 'b_findall': 1500,
                          'b_=': 1000, 'b_\\=': 500, 'goal_in_variable': 1500, 'failing_goal_once': 100}}
    return {'n': 450000, 'deadline': 560,
            'floor': {'call_with_8_extra_arguments': 1, 'distinct_nontrivial': 40000, 'b_call': 60000, 'b_once': 30000, 'b_findall': 30000,
                      'b_=': 20000, 'b_\\=': 10000, 'goal_in_variable': 30000, 'failing_goal_once': 2000}}


def setup(tier, seed):
    return {'real': Real()}


class G:
    def __init__(self, rng):
        self.rng = rng
        self.n = 0
        self.pre = []      # goals that bind goal-variables at run time
        self.c = {}

    def var(self):
        self.n += 1
        return V('V%d' % self.n)

    def data(self, d=2):
        r = self.rng.random()
        if d <= 0 or r < 0.45:
            return self.rng.choice([A('a'), A('b'), A('q'), I(1), I(2), self.var(), C('f', self.var()), NIL])
        if r < 0.8:
            # same names with different arities, shared prefixes: what = and \\= must tell apart
            name = self.rng.choice(['f', 'f', 'g', 'point'])
            n = self.rng.choice([1, 2, 3])
            pre = [A('a'), A('b'), I(1)]
            args = [pre[i] if self.rng.random() < 0.7 else self.data(d - 1) for i in range(n)]
            return C(name, *args)
        items = [self.rng.choice([A('a'), A('b'), I(1)]) if self.rng.random() < 0.7 else self.data(d - 1)
                 for _ in range(self.rng.choice([1, 2, 3]))]
        return L(items) if self.rng.random() < 0.8 else L(items, self.var())

    def leaf(self):
        r = self.rng.random()
        if r < 0.25:
            return C('foo', self.rng.choice([self.var(), A('b'), A('q')]))
        if r < 0.40:
            return C('bar', self.rng.choice([self.var(), A('a')]), self.var())
        if r < 0.48:
            return C('tri', self.var(), self.var(), self.var())
        if r < 0.58:
            return A(self.rng.choice(['yes', 'twice', 'no']))
        if r < 0.66:
            return C('nope', self.var())
        if r < 0.72:
            return A('nopeatom')
        if r < 0.80:
            return C('nv', self.var())
        if r < 0.88:
            return C('r', self.var())
        return C('one', self.var())

    def goal(self, d):
        """a goal term"""
        rng = self.rng
        if d <= 0 or rng.random() < 0.25:
            return self.leaf()
        r = rng.random()
        if r < 0.22:
            g = self.maybe_var(self.goal(d - 1))
            return C('call', g)
        if r < 0.40:
            # call/N with missing arguments
            k = rng.random()
            if k < 0.12:
                # a closure over a wide predicate: j arguments inside the goal, the other K-j appended by call/N
                K = rng.choice(WIDE)
                j = rng.choice([0, 0, 1, 2, K - 1, K, rng.randrange(K + 1)])
                args = [self.var() if rng.random() < 0.6 else rng.choice([A('w%d_%d' % (K, i)), A('x')]) for i in range(K)]
                first = A('wd') if j == 0 else C('wd', *args[:j])
                self.c['call_with_%d_extra_arguments' % min(K - j, 8)] = 1
                return C('call', self.maybe_var(first), *args[j:])
            if k < 0.3:
                return C('call', self.maybe_var(A('foo')), self.var())
            if k < 0.6:
                return C('call', self.maybe_var(C('bar', rng.choice([A('a'), self.var()]))), self.var())
            if k < 0.8:
                return C('call', self.maybe_var(A('bar')), self.var(), self.var())
            return C('call', self.maybe_var(C('tri', self.var())), self.var(), self.var())
        if r < 0.58:
            g = self.goal(d - 1)
            return C('once', self.maybe_var(g))
        if r < 0.80:
            g = self.goal(d - 1)
            vs = term_vars(g)
            k = rng.random()
            if not vs or k < 0.15:
                tmpl = A('x')
            elif k < 0.6:
                tmpl = rng.choice(vs)
            elif k < 0.8:
                tmpl = C('f', rng.choice(vs), rng.choice(vs))
            else:
                tmpl = L([rng.choice(vs)], rng.choice(vs))
            k = rng.random()
            bag = self.var() if k < 0.75 else (NIL if k < 0.82 else (L([self.var()], self.var()) if k < 0.92
                                                                       else L([self.var(), self.var()])))
            return C('findall', tmpl, self.maybe_var(g), bag)
        if r < 0.90:
            return C('=', self.data(), self.data())
        return C('\\=', self.data(), self.data())

    def maybe_var(self, g):
        """sometimes let the goal arrive in a variable bound at run time"""
        if self.rng.random() < 0.35:
            gv = self.var()
            self.pre.append(('call', C('=', gv, g)))
            self.c['goal_in_variable'] = self.c.get('goal_in_variable', 0) + 1
            return gv
        return g


def gen_case(rng):
    g = G(rng)
    goals = []
    for _ in range(rng.choice([1, 1, 2, 3])):
        if rng.random() < 0.25:
            goals.append(('call', C('foo', g.var())))       # backtracking context
        t = g.goal(rng.choice([1, 2, 2, 3]))
        goals.extend(g.pre)
        g.pre = []
        goals.append(('call', t))
        if rng.random() < 0.15:
            goals.append(('call', C('bar', g.var(), g.var())))
    vars_ = [V('V%d' % i) for i in range(1, g.n + 1)]
    head = C('t', *vars_) if vars_ else A('t')
    wide = WIDE_FACTS if any(k.startswith('call_with_') for k in g.c) else []
    clauses = list(FACTS) + wide + [(head, gen.conj(goals))]
    return clauses, goals, vars_, g.c


def long_lived_case(ctx, rng):
    """ONE engine serves hundreds of requests that use once/1, call/N and findall/3 and mostly take only the first answer
    (abandoning the rest): what it answers afterwards is what a fresh engine with the same program answers"""
    real = ctx['real']
    E = real.E
    src = rprogram(list(FACTS) + [
        (C('first', V('X')), ('call', C('once', C('foo', V('X'))))),
        (C('viacall', V('X'), V('Y')), ('and', ('call', C('=', V('G'), A('bar'))), ('call', C('call', V('G'), V('X'), V('Y'))))),
        (C('bag', V('L')), ('call', C('findall', V('X'), C('foo', V('X')), V('L')))),
        (C('guarded', V('X')), ('or', ('then', ('call', C('call', C('foo', V('X')))), ('true',)), ('fail',))),
        (C('neg', V('X')), ('and', ('call', C('one', V('X'))), ('not', ('call', C('call', A('no')))))),
    ])
    code = real.compile(src)
    probes = [('first', 1), ('viacall', 2), ('bag', 1), ('guarded', 1), ('neg', 1)]

    def answers(yp):
        out = []
        for name, n in probes:
            vs = [yp.variable() for _ in range(n)]
            out.append([snap_real(E, vs) for _ in yp.query(name, vs)])
        g = yp.query('call', [yp.atom('foo'), yp.variable()])
        out.append(sum(1 for _ in g))
        return out
    fresh = answers(real.engine(code))
    yp = real.engine(code)
    nreq = rng.choice([60, 300, 520, 1100])
    for i in range(nreq):
        k = i % 4
        v = yp.variable()
        if k == 0:
            q = yp.query('first', [v])
        elif k == 1:
            q = yp.query('call', [yp.atom('foo'), v])
        elif k == 2:
            q = yp.query('guarded', [v])
        else:
            q = yp.query('once', [yp.functor('bar', [yp.variable(), v])])
        next(q, None)          # the host takes the first answer ...
        if i % 3:
            q.close()          # ... and abandons the rest (closed, or just dropped)
        del q
    aged = answers(yp)
    c = {'long_lived_engines': 1, 'requests_served_before_the_probe': nreq}
    r = {'c': c, 'nt': True, 'key': ('long_lived', nreq)}
    if aged != fresh:
        r['v'] = {'kind': 'answers_of_a_long_lived_engine_differ_from_a_fresh_one', 'detail': {'requests_served': nreq, 'fresh': fresh, 'aged': aged},
                  'witness': {'program': src, 'requests': nreq}}
    return r


def _finish(ctx, d, counters, key):
    nt = False
    sample = None
    if d['status'] == 'ok':
        refa = d['exp']['refA']
        for k, n in refa.bcalls.items():
            counters['b_' + k] = n
        nt = sum(refa.bcalls.values()) > 0 and (len(d['exp']['answers']) >= 1 or refa.steps >= 4)
        if 'findall_nonground' in refa.flags:
            counters['findall_nonground'] = 1
        src = d['witness']['loads'][0][0]
        sample = {'clause': [l for l in src.split('\n') if l.startswith('t')][:2] or d['witness']['query'],
                  'query': d['witness']['query'], 'answers': len(d['exp']['answers'])}
    return result_from_diff(d, nt, key, counters, sample)


def case_reload(ctx, rng):
    """meta-calls before and after the called predicate is redefined by a later load / registration / assert:
    call(G) must have exactly G's answers at every point of the history"""
    from .. import history as H
    X, Lv = V('X'), V('L')
    k = [0]

    def facts(name, n):
        k[0] += 1
        return [(C(name, A('v%d_%d' % (k[0], i))), ('true',)) for i in range(n)]
    meta = [
        (C('viacall', X), ('call', C('call', C('p', X)))),
        (C('viacall2', X), ('and', ('call', C('=', V('G'), A('p'))), ('call', C('call', V('G'), X)))),
        (C('viaonce', X), ('call', C('once', C('p', X)))),
        (C('viafindall', Lv), ('call', C('findall', X, C('p', X), Lv))),
        (C('direct', X), ('call', C('p', X))),
    ]
    probes = [('viacall', 1), ('viacall2', 1), ('viaonce', 1), ('viafindall', 1), ('direct', 1)]
    hist = [('load', meta + facts('p', rng.choice([1, 2, 3])), True), ('dump', probes)]
    for _ in range(rng.choice([1, 2, 3])):
        r = rng.random()
        if r < 0.5:
            hist.append(('load', facts('p', rng.choice([1, 2])), rng.random() < 0.5))
        elif r < 0.7:
            k[0] += 1
            hist.append(('register', 'p', 1, [(A('py%d' % k[0]),)], rng.choice(['explicit', 'inferred'])))
        elif r < 0.85:
            k[0] += 1
            hist.append(('assert_fact', C('p', A('f%d' % k[0])), rng.random() < 0.5))
        else:
            hist.append(('run', 'call', [C('p', V('A%d' % k[0]))], None))
        hist.append(('dump', probes))
        if rng.random() < 0.4:
            hist.append(('run', rng.choice(['call', 'once']), [C('p', V('B%d' % k[0]))], None))
    d = H.compare_history(ctx['real'], hist, budgetA=20000)
    c = {'reload_histories': 1}
    r = {'c': c, 'nt': False, 'key': H.normalise(hist)}
    if d['status'] == 'discard':
        r['discard'] = d['reason']
        if d['reason'] == 'oracle_disagreement':
            c['oracle_disagreement'] = 1
        return r
    if d['status'] == 'violation':
        r['v'] = {'kind': 'meta_call_differs_after_redefinition:' + d['kind'], 'detail': d['detail'], 'witness': {'history': H.normalise(hist)}}
        r['nt'] = True
        return r
    for kk, n in d['refA'].bcalls.items():
        c['b_' + kk] = n
    r['nt'] = True
    return r


def run_case(ctx, seed, idx, tier):
    rng = random.Random((seed * 1000003 + idx) * 7 + 9)
    if idx % 10 == 9:
        return case_reload(ctx, rng)
    if idx % 250 == 7:
        return long_lived_case(ctx, rng)
    clauses, goals, vars_, c = gen_case(rng)
    c = dict(c)
    r = rng.random()
    if r < 0.75:
        qvars = [V('Q%d' % i) for i in range(len(vars_))]
        # sometimes pass a goal in from the query
        qargs = list(qvars)
        d = diff.differential(ctx['real'], clauses, 't', qargs, [], rng=rng)
        c['via_clause'] = 1
    else:
        # the builtin invoked directly through the API
        g = G(rng)
        t = g.goal(rng.choice([1, 2, 3]))
        while t[0] != 'c' or t[1] not in ('call', 'once', 'findall', '=', '\\='):
            t = g.goal(rng.choice([1, 2, 3]))
        if g.pre:
            # goal variables must be bound: substitute them back (API callers pass terms)
            sub = {p[1][2][0]: p[1][2][1] for p in g.pre}
            from ..terms import resolve
            for _ in range(len(sub) + 1):
                t = resolve(t, sub)
        clauses = list(FACTS)
        qargs = list(t[2])
        d = diff.differential(ctx['real'], clauses, t[1], qargs, [], rng=rng)
        c['via_api_query'] = 1
    if d['status'] == 'ok':
        # once(G) with failing G must fail without raising: count how often that was seen
        for cl in clauses[-1:]:
            pass
        if d['exp']['refA'].bcalls.get('once') and not d['exp']['answers']:
            c['failing_goal_once'] = 1
    w = d.get('witness') or {}
    return _finish(ctx, d, c, (w.get('loads'), w.get('query')))


def corpus():
    X, Y, Gv, Lv = V('X'), V('Y'), V('G'), V('L')
    items = [
        # defects named in the property (F05, F06, F07)
        ([(C('t', X, Gv), ('and', ('call', C('=', Gv, C('foo', X))), ('call', C('call', Gv))))], 't', [V('Q0'), V('Q1')]),
        ([(C('t', X, Lv), ('call', C('findall', X, A('twice'), Lv)))], 't', [V('Q0'), V('Q1')]),
        ([(C('t', X), ('call', C('once', C('nope', X)))), (C('t', A('z')), ('true',))], 't', [V('Q0')]),
        ([(C('t', X, Gv, Lv), ('and', ('call', C('=', Gv, C('foo', X))), ('call', C('findall', X, Gv, Lv))))], 't', [V('Q0'), V('Q1'), V('Q2')]),
        ([(C('t', X, Gv), ('and', ('call', C('=', Gv, A('twice'))), ('call', C('once', Gv))))], 't', [V('Q0'), V('Q1')]),
        ([(C('t', X, Y), ('call', C('call', A('bar'), X, Y)))], 't', [V('Q0'), V('Q1')]),
        ([(C('t', X, Y), ('call', C('once', C('call', C('bar', X), Y))))], 't', [V('Q0'), V('Q1')]),
        ([(C('t', X, Y, Lv), ('call', C('findall', C('f', X, Lv), C('findall', Y, C('bar', X, Y), Lv), V('M'))))], 't', [V('Q0'), V('Q1'), V('Q2')]),
        ([(C('t', X, Y), ('and', ('call', C('\\=', X, A('a'))), ('call', C('=', Y, A('b')))))], 't', [V('Q0'), V('Q1')]),
    ]
    return [{'clauses': list(FACTS) + cl, 'q': (qn, qa)} for cl, qn, qa in items]


def run_corpus(ctx, item):
    d = diff.differential(ctx['real'], item['clauses'], item['q'][0], item['q'][1], [])
    w = d.get('witness') or {}
    return _finish(ctx, d, {}, (w.get('loads'), w.get('query')))


def replay(ctx, w):
    return diff_replay(ctx['real'], w)
