"""C03 - backtracking leaves no trace, however a query ends (fault enumeration)."""
import gc
import random
from .. import gen, diff
from ..real import Real
from ..terms import is_bound
from ..refA import unify as ref_unify
from ..sto import sto
from ..terms import V, A, C, L, NIL, I, canon, Cyclic, snap_real, build_real, rprogram, rterm
from ..observe import SCRIPT_FN
from ..gen import uniq_clauses
from . import c09

PROPERTY = 'C03'
LEVEL = 'fault_enumeration'
RULE = ('for each generated side-effect-free program/query (stratified programs, recursive templates, '
        'control bodies with cut / if-then-else / \\+, meta-call bodies with once/findall/call) with n <= 8 '
        'answers, EVERY way of ending the enumeration is executed on the same engine and the same variable '
        'objects: exhaust; close() after k answers for every 0<=k<=n; drop (del, then gc) after every k; '
        'consumer throw() at every k; a registered Python predicate raising at its j-th entry/resume for '
        'every j of a full run (<= 30); each also under 0-2 outer unifications that are held open and whose '
        'bindings must survive. After the generator is finalised the monitor compares the binding flag of '
        'every live Variable (weak registry hooked on Variable.__init__) and the snapshot of the query terms '
        'with the state before, requires every variable created meanwhile to be unbound, nothing in '
        'sys.unraisablehook, and answer k equal to the reference answer k in every run (= re-run equality). '
        'Non-trivial = program with >= 1 answer; distinct = hash of (program, query, outer bindings)')
ASSUMPTIONS = ['"afterwards" = after the generator has been finalised (reference dropped / except block left); '
               'finalisation is CPython reference counting: a state that only comes back after a gc.collect() is a violation (the unchanged tree never needs one)',
               'reference interpreters A and B agree on the answer sequence',
               'programs contain no assert/retract (side-effect free, as the property states for re-runs)']
RULE_ADDED = (' Added after the rounds of independently written changes (DESIGN.md 12.2): ' +
              'host values as terms (NaN, Decimal NaN, an object equal to nothing, None, 0, empty values): bare unification ended in every way and queries over dynamic facts holding them; a garbage collection pass needed to restore the state is a violation.')
RULE = RULE + RULE_ADDED


class Boom(Exception):
    pass


def plan(tier, seed):
    if tier == 'quick':
        return {'n': 10000, 'deadline': 150, 'case_timeout': 60,
                'floor': {'distinct_nontrivial': 2000, 'executions': 50000, 'close_points': 10000,
                          'drop_points': 10000, 'throw_points': 10000, 'user_raise_points': 5000,
                          'variables_created_during_runs': 50000, 'with_outer_bindings': 10000}}
    return {'n': 190000, 'deadline': 560, 'case_timeout': 60,
            'floor': {'distinct_nontrivial': 8000, 'executions': 400000, 'close_points': 80000,
                      'drop_points': 80000, 'throw_points': 80000, 'user_raise_points': 30000,
                      'variables_created_during_runs': 1000000, 'with_outer_bindings': 60000}}


def setup(tier, seed):
    real = Real(clock=True, registry=True)
    return {'real': real}


def gen_program(rng):
    """returns clauses, qname, qargs, py (bool: leaf m/1 is a Python predicate)"""
    r = rng.random()
    qv = [V('Q0'), V('Q1'), V('Q2')]
    if r < 0.25:
        clauses, preds = gen.gen_prog_stratified(rng)
        qn, qa = rng.choice(preds)
        return clauses, qn, gen.gen_query_args(rng, qa, qv), False
    if r < 0.40:
        clauses, qn, qargs = gen.gen_template_case(rng)
        return clauses, qn, qargs, False
    if r < 0.80:
        clauses, qn, na = gen.gen_control_case(rng, allow_cut_p=0.8, maxdepth=3)
        return clauses, qn, [V('Q%d' % i) for i in range(na)], rng.random() < 0.6
    clauses, goals, vars_, c = c09.gen_case(rng)
    return clauses, 't', [V('Q%d' % i) for i in range(len(vars_))], False


class Run:
    """one program/query/outer-binding configuration on one engine"""

    def __init__(self, ctx, clauses, qname, qargs, outer, py):
        self.ctx = ctx
        self.real = ctx['real']
        self.E = self.real.E
        self.reg = self.real.reg
        self.clauses, self.qname, self.qargs, self.outer, self.py = clauses, qname, qargs, outer, py
        self.c = {}
        self.events = [0]
        self.raise_at = [None]

    def reference(self):
        observed = list(self.qargs)
        for t in self.qargs:
            pass
        s0 = {}
        for a, b in self.outer:
            if sto([(a, b)], s0):
                return {'discard': 'sto_outer'}
            try:
                s1 = ref_unify(a, b, s0)
            except Cyclic:
                return {'discard': 'sto_outer'}
            if s1 is None:
                return {'discard': 'outer_fails'}
            s0 = s1
        self.s0 = s0
        qv = []
        from ..terms import term_vars
        for t in self.qargs:
            term_vars(t, qv)
        for a, b in self.outer:
            term_vars(a, qv)
            term_vars(b, qv)
        self.observed = list(self.qargs) + qv
        loads = [(uniq_clauses(self.clauses), True)]
        preA = lambda r: None
        from ..diff import run_refA, run_refB
        from .. import refA as RA, refB as RB
        r = RA.RefA(20000)
        r.load(loads[0][0])
        out = []
        try:
            for s in r.call(('c', self.qname, tuple(self.qargs)), s0):
                out.append(canon(self.observed, s))
                if len(out) > 8:
                    return {'discard': 'too_many_answers'}
        except Cyclic:
            return {'discard': 'sto'}
        except RA.Budget:
            return {'discard': 'ref_budget'}
        except RA.RefError:
            return {'discard': 'ref_type_error'}
        except RecursionError:
            return {'discard': 'ref_depth'}
        if 'findall_nonground' in r.flags:
            return {'discard': 'findall_nonground'}
        db = RB.DB()
        db.load(loads[0][0])
        m = RB.MachineB(db, 200000, init=s0)
        outb = []
        try:
            for _ in m.run(('c', self.qname, tuple(self.qargs))):
                outb.append(m.snapshot(self.observed))
                if len(outb) > 8:
                    break
        except (RB.BudgetB, RB.RefErrorB, RecursionError):
            return {'discard': 'refB_problem'}
        if out != outb:
            return {'discard': 'oracle_disagreement'}
        self.ref_steps = r.steps
        self.ref_depth = r.maxdepth
        self.pre_expected = canon(self.observed, s0)
        return {'answers': out}

    def build(self):
        real, E = self.real, self.E
        clauses = self.clauses
        if self.py:
            clauses = [cl for cl in clauses if not (cl[0][0] == 'c' and cl[0][1] == 'm')]
        src = rprogram(clauses)
        self.src = src
        yp = real.engine(real.compile(src))
        if self.py:
            events, raise_at = self.events, self.raise_at
            unify, atom = E.unify, yp.atom

            def m(arg):
                events[0] += 1
                if events[0] == raise_at[0]:
                    raise Boom('entry %d' % events[0])
                for name in ('m0', 'm1'):
                    for _ in unify(arg, atom(name)):
                        yield False
                        events[0] += 1
                        if events[0] == raise_at[0]:
                            raise Boom('resume %d' % events[0])
            yp.register_function('m', m)
        self.yp = yp
        self.vmap = {}
        self.robs = [build_real(yp, t, self.vmap) for t in self.observed]
        self.rargs = [build_real(yp, t, self.vmap) for t in self.qargs]
        self.held = []
        for a, b in self.outer:
            g = iter(E.unify(build_real(yp, a, self.vmap), build_real(yp, b, self.vmap)))
            self.held.append(g)
            next(g)
        self.real.unr.take()

    def teardown(self):
        for g in reversed(self.held):
            g.close()
        self.held = []

    def execute(self, mode, k, expected):
        """run one fault scenario; returns violation dict or None"""
        E, reg, real = self.E, self.reg, self.real
        pre_flags = reg.state()
        created0 = reg.created
        pre_snap = snap_real(E, self.robs)
        if pre_snap != self.pre_expected:
            return {'kind': 'state_before_run_wrong', 'detail': {'expected': self.pre_expected, 'got': pre_snap, 'before': mode}}
        got = []
        exc = None
        self.events[0] = 0
        g = self.yp.query(self.qname, self.rargs)
        clk = real.clock
        clk.start(diff.engine_bound(self.ref_steps))
        try:
            try:
                if mode in ('close', 'drop', 'throw') and k == 0:
                    pass      # abandon before the first next()
                else:
                    for _ in g:
                        c0 = clk.count
                        got.append(snap_real(E, self.robs))
                        clk.count = c0
                        if mode != 'exhaust' and mode != 'raise' and len(got) == k:
                            break
                        if len(got) > 10:
                            break
                if mode == 'close':
                    g.close()
                elif mode == 'throw':
                    if k > 0:
                        try:
                            g.throw(Boom('consumer'))
                        except Boom as e:
                            exc = 'Boom'
                        except StopIteration:
                            exc = 'swallowed'
                    else:
                        try:
                            g.throw(Boom('consumer'))
                        except Boom:
                            exc = 'Boom'
            finally:
                clk.stop()
        except Boom as e:
            exc = 'Boom:' + str(e)
        except RecursionError:
            exc = 'RecursionError'
        except Exception as e:
            exc = type(e).__name__ + ':' + str(e)[:100]
        except BaseException as e:
            if type(e).__name__ == 'StepBudget':
                exc = 'budget'
            else:
                raise
        # finalise
        e = None
        del g
        needed_gc = False
        bound_new, changed = self.audit(pre_flags)
        post_snap = snap_real(E, self.robs)
        if bound_new or changed or post_snap != pre_snap:
            gc.collect()
            needed_gc = True
            bound_new, changed = self.audit(pre_flags)
            post_snap = snap_real(E, self.robs)
        if mode == 'drop':
            gc.collect()
        self.c['executions'] = self.c.get('executions', 0) + 1
        self.c['variables_checked'] = self.c.get('variables_checked', 0) + len(pre_flags)
        self.c['variables_created_during_runs'] = self.c.get('variables_created_during_runs', 0) + (reg.created - created0)
        if needed_gc and not (bound_new or changed or post_snap != pre_snap):
            # the state came back only after a garbage collection pass: with CPython's reference counting the unchanged
            # tree restores it at once (measured: never needed), so something keeps the finished query alive
            return {'kind': 'state_restored_only_after_a_gc_pass', 'detail': {'after': {'mode': mode, 'k': k}}}
        w = {'mode': mode, 'k': k}
        if exc == 'RecursionError' and self.ref_depth > diff.DEPTH_SAFE:
            return 'discard'
        if bound_new:
            return {'kind': 'internal_variable_left_bound', 'detail': {'count': bound_new, 'after': w}}
        if changed:
            return {'kind': 'variable_binding_state_changed', 'detail': {'count': changed, 'after': w}}
        if post_snap != pre_snap:
            return {'kind': 'query_terms_changed', 'detail': {'before': pre_snap, 'after': post_snap, 'scenario': w}}
        unr = real.unr.take()
        if unr:
            return {'kind': 'exception_in_finaliser', 'detail': {'events': unr[:3], 'scenario': w}}
        exp_prefix = expected if mode in ('exhaust',) else expected[:len(got)]
        if mode == 'raise':
            if exc is None or not exc.startswith('Boom'):
                if self.raise_at[0] is not None and self.events[0] >= self.raise_at[0]:
                    return {'kind': 'user_exception_lost', 'detail': {'exc': exc, 'scenario': w}}
            exp_prefix = expected[:len(got)]
        elif mode == 'throw':
            if exc != 'Boom':
                return {'kind': 'consumer_exception_lost', 'detail': {'exc': exc, 'scenario': w}}
        elif exc is not None:
            return {'kind': 'exception:' + exc.split(':')[0], 'detail': {'exc': exc, 'scenario': w}}
        if got != exp_prefix:
            return {'kind': 'answers_differ_in_rerun', 'detail': {'scenario': w, 'expected': exp_prefix[:3], 'got': got[:3],
                                                                    'n_expected': len(exp_prefix), 'n_got': len(got)}}
        if mode not in ('exhaust', 'raise') and len(got) != min(k, len(expected)):
            return {'kind': 'answers_differ_in_rerun', 'detail': {'scenario': w, 'n_got': len(got), 'k': k}}
        return None

    def audit(self, pre_flags):
        bound_new = 0
        changed = 0
        for v in list(self.reg.live):
            was = pre_flags.get(id(v))
            if was is None:
                if is_bound(v):
                    bound_new += 1
            elif was != is_bound(v):
                changed += 1
        return bound_new, changed


def run_config(ctx, clauses, qname, qargs, outer, py, c):
    run = Run(ctx, clauses, qname, qargs, outer, py)
    ref = run.reference()
    if 'discard' in ref:
        r = {'c': c, 'nt': False, 'key': None, 'discard': ref['discard']}
        if ref['discard'] == 'oracle_disagreement':
            c['oracle_disagreement'] = 1
        return r
    expected = ref['answers']
    n = len(expected)
    try:
        run.build()
    except Exception as e:
        msg = str(e)
        if 'too large' in msg:
            return {'c': c, 'nt': False, 'key': None, 'discard': 'clause_too_large'}
        return {'c': c, 'nt': True, 'key': None,
                'v': {'kind': 'compile:' + type(e).__name__, 'detail': msg[:200], 'witness': {'src': rprogram(clauses)}}}
    witness = {'src': run.src, 'qname': qname, 'qargs': qargs, 'outer': outer, 'py': py,
               'clauses': clauses, 'query': '%s(%s)' % (qname, ','.join(rterm(a) for a in qargs))}
    scenarios = [('exhaust', None)]
    for k in range(0, n + 1):
        scenarios += [('close', k), ('drop', k), ('throw', k)]
    scenarios.append(('exhaust', None))
    v = None
    try:
        for mode, k in scenarios:
            v = run.execute(mode, k, expected)
            if v == 'discard':
                return {'c': c, 'nt': False, 'key': None, 'discard': 'engine_recursion_depth'}
            if v:
                break
            if mode != 'exhaust':
                c[mode + '_points'] = c.get(mode + '_points', 0) + 1
        if not v and py:
            total = run.events[0]     # events of the last full run
            for j in range(1, min(total, 30) + 1):
                run.raise_at[0] = j
                v = run.execute('raise', j, expected)
                run.raise_at[0] = None
                if v == 'discard':
                    v = None
                    break
                if v:
                    break
                c['user_raise_points'] = c.get('user_raise_points', 0) + 1
            if not v:
                v = run.execute('exhaust', None, expected)
                if v == 'discard':
                    v = None
    finally:
        run.teardown()
    for k2, n2 in run.c.items():
        c[k2] = c.get(k2, 0) + n2
    if outer:
        c['with_outer_bindings'] = c.get('with_outer_bindings', 0) + run.c.get('executions', 0)
    if not v:
        # after the outer unifications are closed everything must be unbound
        left = [x for x in run.robs if isinstance(x, run.E.Variable) and is_bound(x)]
        if left:
            v = {'kind': 'variable_bound_after_outer_closed', 'detail': {'count': len(left)}}
    r = {'c': c, 'nt': n >= 1, 'key': (run.src, witness['query'], outer)}
    if v:
        v['witness'] = witness
        r['v'] = v
        r['nt'] = True
    elif n >= 1:
        r['sample'] = {'program': [l for l in run.src.split('\n') if ':-' in l][:3], 'query': witness['query'],
                       'answers': n, 'scenarios': len(scenarios), 'outer': outer, 'python_predicate_m': py}
    return r


class NeverEqual:
    """a Python value that is not equal to anything, itself included (like NaN, like a missing-value marker)"""
    def __eq__(self, other):
        return False

    def __ne__(self, other):
        return True
    __hash__ = object.__hash__

    def __repr__(self):
        return 'NeverEqual()'


def odd_constant_case(ctx, rng):
    """values from the host program as terms - None, 0, '', NaN, Decimal('NaN'), an object that equals nothing,
    bytes, a tuple: whatever a variable is bound to, the binding is gone when the generator ends (however it ends),
    for a bare unification and for a query over dynamic facts holding such values"""
    import decimal
    real = ctx['real']
    E = real.E
    yp = real.engine()
    k = rng.choice([float('nan'), decimal.Decimal('NaN'), NeverEqual(), None, 0, '', b'', (), 0.0, False])
    c = {'odd_constant_cases': 1}
    w = {'constant': repr(k)}
    for how in ('exhaust', 'close', 'drop', 'throw'):
        X = yp.variable()
        Y = yp.variable()
        g = iter(E.unify(yp.functor('p', [X, Y]), yp.functor('p', [Y, k])) if rng.random() < 0.5 else E.unify(X, k))
        try:
            next(g)
        except StopIteration:
            return {'c': c, 'nt': True, 'key': None, 'v': {'kind': 'free_variable_does_not_unify_with_constant', 'detail': w, 'witness': w}}
        if E.get_value(X) is not k:
            return {'c': c, 'nt': True, 'key': None, 'v': {'kind': 'variable_not_bound_to_the_constant_at_yield', 'detail': w, 'witness': w}}
        if how == 'exhaust':
            for _ in g:
                pass
        elif how == 'close':
            g.close()
        elif how == 'throw':
            try:
                g.throw(KeyError('consumer'))
            except (KeyError, StopIteration, AttributeError):
                pass
        del g
        if E.get_value(X) is not X or is_bound(X) or is_bound(Y):
            return {'c': c, 'nt': True, 'key': None, 'v': {'kind': 'variable_left_bound_to_constant', 'detail': dict(w, ended_by=how), 'witness': dict(w, ended_by=how)}}
        c['odd_constant_unifications'] = c.get('odd_constant_unifications', 0) + 1
    # dynamic facts holding the value
    vals = [1, k, 'x']
    rng.shuffle(vals)
    for i, v in enumerate(vals):
        yp.assert_fact(yp.atom('reading'), [yp.atom('s%d' % i), v])
    S, Vv = yp.variable(), yp.variable()
    for stop in (None, 1, 2):
        n = 0
        q = yp.query('reading', [S, Vv])
        for _ in q:
            n += 1
            if E.get_value(Vv) is not vals[n - 1] and E.get_value(Vv) != vals[n - 1]:
                return {'c': c, 'nt': True, 'key': None, 'v': {'kind': 'answer_wrong', 'detail': dict(w, answer=n), 'witness': w}}
            if stop == n:
                q.close()
                break
        if stop is None and n != 3:
            return {'c': c, 'nt': True, 'key': None, 'v': {'kind': 'answers_missing', 'detail': dict(w, expected=3, got=n, values=repr(vals)), 'witness': w}}
        if is_bound(S) or is_bound(Vv):
            return {'c': c, 'nt': True, 'key': None, 'v': {'kind': 'variable_left_bound_to_constant', 'detail': dict(w, after_query_stopped_at=stop), 'witness': w}}
        c['odd_constant_queries'] = c.get('odd_constant_queries', 0) + 1
    return {'c': c, 'nt': True, 'key': ('odd', repr(k), tuple(repr(v) for v in vals))}


def run_case(ctx, seed, idx, tier):
    rng = random.Random((seed * 1000003 + idx) * 7 + 3)
    if idx % 40 == 5:
        return odd_constant_case(ctx, rng)
    clauses, qname, qargs, py = gen_program(rng)
    from ..terms import term_vars
    qv = []
    for t in qargs:
        term_vars(t, qv)
    outer = []
    if qv and rng.random() < 0.4:
        for _ in range(rng.choice([1, 2])):
            outer.append((rng.choice(qv), gen.gen_term(rng, qv + [V('O1')], rng.choice([0, 1, 2]), anon_ok=False)))
    return run_config(ctx, clauses, qname, qargs, outer, py, {})


def corpus():
    X, Y = V('X'), V('Y')
    Q0, Q1 = V('Q0'), V('Q1')
    facts = gen.leaf_facts()
    m = lambda v: ('call', C('m', V(v)))
    n = lambda v: ('call', C('n', V(v)))
    items = [
        (facts + [(C('t', X, Y), ('and', m('X'), ('and', ('cut',), n('Y'))))], 't', [Q0, Q1], [], True),
        (facts + [(C('t', X, Y), ('or', ('then', m('X'), n('Y')), ('true',)))], 't', [Q0, Q1], [], True),
        (facts + [(C('t', X, Y), ('and', ('not', ('and', m('X'), ('fail',))), n('Y')))], 't', [Q0, Q1], [(Q1, A('n1'))], True),
        (facts + [(C('t', X, Y), ('and', ('call', C('once', C('m', X))), ('call', C('findall', V('Z'), C('n', V('Z')), Y))))], 't', [Q0, Q1], [], True),
        (gen.TEMPLATES['append'], 'append', [Q0, Q1, L([A('a'), A('b'), A('c')])], [(Q0, L([V('O1')], V('O2')))], False),
    ]
    return [{'clauses': cl, 'qname': qn, 'qargs': qa, 'outer': o, 'py': py} for cl, qn, qa, o, py in items]


def run_corpus(ctx, item):
    return run_config(ctx, item['clauses'], item['qname'], item['qargs'], item['outer'], item['py'], {})


def replay(ctx, w):
    from ..diff import totuple
    cl = [(totuple(h), totuple(b)) for h, b in w['clauses']]
    outer = [tuple(totuple(p)) for p in w['outer']]
    return run_config(ctx, cl, w['qname'], [totuple(a) for a in w['qargs']], outer, w['py'], {})
