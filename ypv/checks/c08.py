"""C08 - call resolution: facts first, exact arity, load order, late binding."""
import itertools
import random
from .. import history as H
from .. import gen
from ..real import Real
from ..terms import V, A, C, I, rterm
from .c14 import short, fix_history

PROPERTY = 'C08'
LEVEL = 'exploration'
RULE = ('histories of 3-12 steps over predicate names a b c d with arities 0-3: load a generated script (facts that '
        'identify their script, rules referencing predicates of other scripts in both load orders, clauses with cuts) '
        'with overwrite on/off; register a Python predicate (inferred / explicit / variadic arity); assert facts; '
        'clear; loads that raise (Python error after some definitions, Python syntax error, Prolog syntax error). '
        'After EVERY step the probe set (every name x arity 0..3 with fresh variables) is queried; answers compared '
        'with the list-of-definitions model of reference A = reference B (facts first, exact arity before variadic, '
        'overwrite replaces, non-overwrite appends a group with its own cut barrier, register replaces, failing load '
        'changes nothing). Thorough adds all load-order permutations of 4 scripts x overwrite flags. Non-trivial = '
        'some name/arity has >= 2 sources (facts+definition, two groups, exact+variadic); distinct = hash of the history')
ASSUMPTIONS = ['reference interpreters A and B agree', 'API names are not used as predicate names here (C12)']
RULE_ADDED = (' Added after the rounds of independently written changes (DESIGN.md 12.2): ' +
              'calls suspended while definitions change; recursive predicates whose base case lives in a fact / another load / a registration; inferred arity of decorated, partial, bound-method, callable-object, lambda, default-argument and __signature__ callables; scripts loaded through load_script_from_file.')
RULE = RULE + RULE_ADDED

NAMES = ['a', 'b', 'c', 'd']
PROBES = [(n, k) for n in NAMES for k in range(4)]


def plan(tier, seed):
    if tier == 'quick':
        return {'n': 9000, 'deadline': 150,
                'floor': {'registered_wrapped': 1, 'registered_partial': 1, 'loads_through_file_api': 1, 'distinct_nontrivial': 1500, 'loads_overwrite': 4000, 'loads_combine': 4000, 'registers': 2000,
                          'variadic_registers': 500, 'failing_loads': 1000, 'probe_sets_compared': 30000,
                          'keys_with_two_sources': 3000, 'scripts_with_cut': 2000}}
    return {'n': 220000 + exh_n(), 'deadline': 540, 'exh': exh_n(),
            'floor': {'registered_wrapped': 1, 'registered_partial': 1, 'loads_through_file_api': 1, 'distinct_nontrivial': 20000, 'loads_overwrite': 60000, 'loads_combine': 60000, 'registers': 30000,
                      'failing_loads': 15000, 'probe_sets_compared': 500000, 'exhaustive_load_orders': exh_n()}}


def exh_n():
    return 24 * 16


def EXHAUSTIVE(tier):
    if tier == 'thorough':
        return {'scripts': 4, 'permutations': 24, 'overwrite_flag_vectors': 16, 'total': exh_n()}
    return None


def setup(tier, seed):
    return {'real': Real(), 'exh': exh_n() if tier == 'thorough' else 0}


def gen_script(rng, sid):
    """small script; constants carry the script id"""
    clauses = []
    has_cut = False
    for _ in range(rng.choice([1, 2, 3])):
        name = rng.choice(NAMES)
        # references only go to alphabetically later names: no infinite recursion, still late bound
        later = [n for n in NAMES if n > name] or ['zz']
        ar = rng.choice([0, 1, 1, 2])
        nclauses = rng.choice([1, 2, 3])
        for ci in range(nclauses):
            const = A('s%d_%s%d' % (sid, name, ci))
            X, Y = V('X'), V('Y')
            r = rng.random()
            if ar == 0:
                head = A(name)
                if r < 0.5:
                    body = ('true',)
                elif r < 0.75:
                    body = ('call', C(rng.choice(later), V('_')))
                else:
                    body = ('cut',)
                    has_cut = True
            else:
                args = [const if rng.random() < 0.6 else X] + [rng.choice([Y, const, A('k')]) for _ in range(ar - 1)]
                head = C(name, *args)
                if r < 0.45:
                    body = ('true',)
                elif r < 0.65:
                    other = rng.choice(later)
                    body = ('call', C(other, X))                # late-bound reference, maybe to another script
                elif r < 0.8:
                    body = ('and', ('call', C(rng.choice(later), X)), ('cut',))
                    has_cut = True
                elif r < 0.9:
                    body = ('cut',)
                    has_cut = True
                else:
                    body = ('and', ('cut',), ('call', C(rng.choice(later), X)))
                    has_cut = True
            clauses.append((head, body))
    if rng.random() < 0.3:
        # structural recursion (last goal calls the clause's own predicate): its base case is defined elsewhere -
        # by a dynamic fact, by another load or by a registered function - and every level must go through the
        # normal call resolution
        X = V('X')
        clauses.append((C('r', C('s', X)), ('call', C('r', X))))
        if rng.random() < 0.3:
            clauses.append((C('r', A('z')), ('true',)))
        if rng.random() < 0.3:
            clauses.append((C('r2', C('s', X), V('Y')), ('and', ('call', C('b', V('Y'))), ('call', C('r2', X, V('Y'))))))
    return clauses, has_cut


def gen_history(rng):
    hist = []
    c = {}
    sid = 0
    open_q = []
    qid = 0
    for _ in range(rng.choice([3, 5, 8, 12])):
        r = rng.random()
        # a call resolves at the moment it is made: calls that are suspended while definitions change
        if rng.random() < 0.2:
            qid += 1
            nm = rng.choice(NAMES)
            ar = rng.choice([1, 1, 2])
            hist.append(('start', qid, nm, [V('S%d_%d' % (qid, i)) for i in range(ar)]))
            hist.append(('next', qid))
            open_q.append(qid)
            c['suspended_calls'] = c.get('suspended_calls', 0) + 1
        elif open_q and rng.random() < 0.3:
            hist.append(('next', rng.choice(open_q)))
        if r < 0.45:
            sid += 1
            cl, has_cut = gen_script(rng, sid)
            ow = rng.random() < 0.5
            hist.append(('load', cl, ow))
            c['loads_overwrite' if ow else 'loads_combine'] = c.get('loads_overwrite' if ow else 'loads_combine', 0) + 1
            if has_cut:
                c['scripts_with_cut'] = c.get('scripts_with_cut', 0) + 1
        elif r < 0.62:
            sid += 1
            name = rng.choice(NAMES)
            style = rng.choice(['inferred', 'explicit', 'variadic'])
            ar = rng.choice([0, 1, 1, 2])
            if style == 'variadic':
                rows = [tuple(A('py%d_%d' % (sid, i)) for _ in range(k)) for i, k in enumerate(rng.sample([0, 1, 1, 2, 3], 3))]
                hist.append(('register', name, -1, rows, style))
                c['variadic_registers'] = c.get('variadic_registers', 0) + 1
            else:
                rows = [tuple(A('py%d_%d' % (sid, i)) for _ in range(ar)) for i in range(rng.choice([1, 2]))]
                hist.append(('register', name, ar, rows, style))
            c['registers'] = c.get('registers', 0) + 1
        elif r < 0.66:
            # base cases of the recursive predicates, supplied from outside the script
            k = rng.random()
            if k < 0.5:
                hist.append(('assert_fact', rng.choice([C('r', A('z')), C('r', C('s', A('z'))), C('r2', A('z'), A('base'))]), True))
            elif k < 0.8:
                hist.append(('register', 'r', 1, [(A('z'),)], rng.choice(['inferred', 'explicit'])))
            else:
                hist.append(('load', [(C('r', A('z')), ('true',))], False))
            c['recursion_base_elsewhere'] = c.get('recursion_base_elsewhere', 0) + 1
        elif r < 0.8:
            name = rng.choice(NAMES)
            ar = rng.choice([0, 1, 1, 2])
            sid += 1
            t = C(name, *[A('f%d' % sid) for _ in range(ar)]) if ar else A(name)
            hist.append(('assert_fact', t, rng.random() < 0.7))
            c['asserts'] = c.get('asserts', 0) + 1
        elif r < 0.97:
            sid += 1
            cl, _ = gen_script(rng, sid)
            hist.append(('load_bad', cl, rng.random() < 0.5,
                         rng.choice(['python_raises_after_defs', 'python_syntax_error', 'prolog_syntax_error'])))
            c['failing_loads'] = c.get('failing_loads', 0) + 1
        else:
            hist.append(('clear',))
            c['clears'] = c.get('clears', 0) + 1
        hist.append(('dump', PROBES))
        hist.append(('run', 'r', [C('s', C('s', C('s', A('z'))))], 3))
        hist.append(('run', 'r2', [C('s', C('s', A('z'))), V('P%d' % sid)], 6))
        c['probe_sets_compared'] = c.get('probe_sets_compared', 0) + 1
    for q in open_q:
        for _ in range(6):
            hist.append(('next', q))
        hist.append(('close', q))
    return hist, c


FIXED_SCRIPTS = None


def fixed_scripts():
    global FIXED_SCRIPTS
    if FIXED_SCRIPTS is None:
        X = V('X')
        FIXED_SCRIPTS = [
            [(C('a', A('s1')), ('true',)), (C('a', X), ('call', C('b', X))), (C('c', A('s1')), ('cut',)), (C('c', A('s1b')), ('true',))],
            [(C('a', A('s2')), ('cut',)), (C('a', A('s2b')), ('true',)), (C('b', A('s2')), ('true',))],
            [(C('b', X), ('and', ('call', C('c', X)), ('cut',))), (C('b', A('s3')), ('true',)), (C('a', A('s3'), A('k')), ('true',))],
            [(C('c', A('s4')), ('true',)), (C('c', X), ('call', C('a', X, A('k')))), (A('a'), ('true',))],
        ]
    return FIXED_SCRIPTS


def exh_history(idx):
    perm = list(itertools.permutations(range(4)))[idx // 16]
    flags = idx % 16
    hist = []
    for j, si in enumerate(perm):
        hist.append(('load', fixed_scripts()[si], bool(flags >> j & 1)))
        hist.append(('dump', PROBES))
    return hist


def judge(ctx, hist, c):
    d = H.compare_history(ctx['real'], hist, budgetA=40000, atom_mode=_atom_mode(hist, c))
    for k_, n_ in H.take_stats().items():
        c[k_] = c.get(k_, 0) + n_
    r = {'c': c, 'nt': False, 'key': H.normalise(hist)}
    if d['status'] == 'discard':
        r['discard'] = d['reason']
        if d['reason'] == 'oracle_disagreement':
            c['oracle_disagreement'] = 1
        return r
    ra = d['refA']
    two = 0
    for key, srcs in ra.defs.items():
        n = len(srcs) + (1 if ra.facts.get(key) else 0)
        if n >= 2:
            two += 1
    for name in ra.variadic:
        if any(k[0] == name for k in ra.defs):
            two += 1
    c['keys_with_two_sources'] = two
    if d['status'] == 'violation':
        r['v'] = {'kind': d['kind'], 'detail': d['detail'], 'witness': {'history': H.normalise(hist)}}
        r['nt'] = True
        return r
    r['nt'] = two > 0
    if r['nt']:
        r['sample'] = {'history': [short(s)[:160] for s in hist if s[0] != 'dump'][:8],
                       'final_probe_answers': {k: v for k, v in [o for o in d['obs'] if isinstance(o, dict)][-1].items() if v}}
    return r


def run_case(ctx, seed, idx, tier):
    if idx < ctx['exh']:
        return judge(ctx, exh_history(idx), {'exhaustive_load_orders': 1, 'probe_sets_compared': 4})
    rng = random.Random((seed * 1000003 + idx) * 7 + 8)
    hist, c = gen_history(rng)
    return judge(ctx, hist, c)


def corpus():
    X = V('X')
    S = fixed_scripts()
    return [
        {'hist': [('load', S[0], True), ('load', S[1], False), ('load', S[2], False), ('dump', PROBES)]},          # 3 combined loads keep cut locality
        {'hist': [('load', S[0], True), ('load', S[1], False), ('load', S[3], True), ('dump', PROBES)]},           # overwrite after combine
        {'hist': [('register', 'a', -1, [(A('v1'),), (A('v2'), A('v2'))], 'variadic'), ('dump', PROBES),
                  ('register', 'a', 1, [(A('e1'),)], 'explicit'), ('dump', PROBES)]},                                # exact beats variadic
        {'hist': [('load', S[1], True), ('load_bad', S[0], True, 'python_raises_after_defs'), ('dump', PROBES)]},    # failing load atomic
        {'hist': [('load', S[2], True), ('dump', PROBES), ('load', S[3], True), ('dump', PROBES), ('load', S[0], False), ('dump', PROBES)]},
        {'hist': [('assert_fact', C('a', A('f')), True), ('load', S[1], True), ('register', 'a', 1, [(A('p'),)], 'inferred'),
                  ('dump', PROBES), ('clear',), ('dump', PROBES)]},
    ]


def run_corpus(ctx, item):
    return judge(ctx, item['hist'], {})


def replay(ctx, w):
    from ..diff import totuple
    hist = fix_history([totuple(s) for s in w['history']])
    fixed = []
    for s in hist:
        if s[0] == 'load_bad':
            s = (s[0], [tuple(cl) for cl in s[1]], s[2], s[3])
        elif s[0] == 'register':
            s = (s[0], s[1], s[2], [tuple(r) for r in s[3]]) + tuple(s[4:])
        fixed.append(s)
    return judge(ctx, fixed, {})


def _atom_mode(hist, c):
    """where the host program's atom objects come from (same terms in every mode): made at the time of use, made once
    and held (also across clear()), or made by another engine"""
    import hashlib
    k = int(hashlib.md5(repr(hist).encode('utf8', 'backslashreplace')).hexdigest(), 16) % 10
    mode = 'fresh' if k < 4 else ('held' if k < 6 else ('other' if k < 8 else 'mixed'))
    c['atoms_' + mode] = 1
    return mode
