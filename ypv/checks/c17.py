"""C17 - evaluate_bounded returns a prefix of the answers and restores the interpreter (fault enumeration)."""
import gc
import json
import os
import random
import select
import signal
import sys
import time
from .. import gen, diff
from ..real import Real
from ..terms import is_bound
from ..terms import V, A, C, I, L, NIL, canon, snap_real, snap_real_iter, build_real, rprogram, rterm
from ..observe import SCRIPT_FN
from ..gen import uniq_clauses

PROPERTY = 'C17'
LEVEL = 'fault_enumeration'
RULE = ('programs {finite facts, deep structural recursion over lists and Peano numbers, left recursion, mutual recursion, '
        'infinitely many answers of growing depth, answers before a deep branch, findall/once around recursion} x EVERY '
        'recursion limit of a contiguous range (quick 60..140, thorough 60..700) plus selected limits up to 1000, so the '
        'strike point sweeps over every kind of frame x projection functions raising at answer k (k<=6) with a custom '
        'exception / RuntimeError / StopIteration / KeyboardInterrupt / not at all x generator passed inline or also held '
        'by the caller and closed afterwards. Each case runs in its own forked child (the limit is process-global). '
        'Observed: return value or exception of evaluate_bounded, every sys.setrecursionlimit call, the limit before/after, '
        'the binding state of all registered Variables after finalisation, unraisable-hook records, child exit status. '
        'Oracle: result is a prefix of the reference answers (refA = refB); it is the complete sequence whenever the same '
        'query enumerated directly under the same limit at the same stack depth completes; no RecursionError escapes; '
        'projection exceptions other than RuntimeError/StopIteration reach the caller unchanged; limit restored and '
        'variables unbound on every path. Non-trivial = the limit actually struck (result shorter than the direct '
        'enumeration without limit) or a projection fault was injected; distinct = (program, limit, fault, hold)')
ASSUMPTIONS = ['one thread; caller stack shallower than the limit; limits above 1000 are outside the explored space '
               '(CPython 3.12.1 aborts when very deep generator chains are closed)',
               '"afterwards" = after the generator is finalised (if the caller holds it: after the caller closes it)',
               'a RuntimeError/StopIteration raised by the projection is swallowed by design (result is the prefix so far)']
RULE_ADDED = (' Added after the rounds of independently written changes (DESIGN.md 12.2): ' +
              "nested evaluate_bounded inside the projection; projections that read through get_value; limits above the interpreter's current limit; the query re-run and every query variable probed afterwards; meta-calls and control constructs around the deep goal followed by alternatives; a gc pass needed to unbind is a violation.")
RULE = RULE + RULE_ADDED


class Custom(Exception):
    pass


X, N, T, H = V('X'), V('N'), V('T'), V('H')


def peano(n):
    t = A('z')
    for _ in range(n):
        t = C('s', t)
    return t


def programs():
    nat = [(C('nat', A('z')), ('true',)), (C('nat', C('s', N)), ('call', C('nat', N)))]
    down = [(C('down', A('z')), ('true',)), (C('down', C('s', N)), ('call', C('down', N)))]
    ln = [(C('len', NIL, A('z')), ('true',)), (C('len', L([V('_')], T), C('s', N)), ('call', C('len', T, N)))]
    eo = [(C('even', NIL), ('true',)), (C('even', L([V('_')], T)), ('call', C('odd', T))), (C('odd', L([V('_')], T)), ('call', C('even', T)))]
    mem = [(C('mem', X, L([X], V('_'))), ('true',)), (C('mem', X, L([V('_')], T)), ('call', C('mem', X, T)))]
    P = []
    P.append(('finite', [(C('p', I(1)), ('true',)), (C('p', I(2)), ('true',)), (C('p', I(3)), ('true',))], 'p', [V('Q')]))
    for n in (5, 30, 80, 150):
        P.append(('down%d' % n, down, 'down', [peano(n)]))
    for n in (5, 40, 100):
        P.append(('len%d' % n, ln, 'len', [L([A('a')] * n), V('Q')]))
    P.append(('nat', nat, 'nat', [V('Q')]))
    P.append(('leftrec', [(C('l', X), ('call', C('l', X))), (C('l', A('a')), ('true',))], 'l', [V('Q')]))
    P.append(('leftrec_after_answers', [(C('l', A('a')), ('true',)), (C('l', A('b')), ('true',)), (C('l', X), ('call', C('l', X)))], 'l', [V('Q')]))
    for n in (6, 61):
        P.append(('evenodd%d' % n, eo, 'even', [L([A('a')] * n)]))
    P.append(('answers_then_deep', [(C('m', I(1)), ('true',)), (C('m', I(2)), ('true',)),
                                    (C('m', X), ('and', ('call', C('down', peano(90))), ('call', C('=', X, I(3)))))] + down, 'm', [V('Q')]))
    P.append(('findall_nat3', [(C('t', V('L')), ('call', C('findall', X, C('mem', X, L([A('a'), A('b'), A('c')])), V('L'))))] + mem, 't', [V('Q')]))
    P.append(('once_nat', [(C('t', X), ('call', C('once', C('nat', X))))] + nat, 't', [V('Q')]))
    P.append(('mem30', mem, 'mem', [V('Q'), L([I(i) for i in range(30)])]))
    # a query variable nested inside the value of another one, bound later, next to a term that grows without bound
    P.append(('report', [(C('report', V('R'), X, N), gen.conj([('call', C('=', V('R'), C('row', X, N))), ('call', C('size', X)), ('call', C('nat', N))])),
                         (C('size', A('small')), ('true',)), (C('size', A('big')), ('true',))] + nat, 'report', [V('Q1'), V('Q2'), V('Q3')]))
    P.append(('report_deep_last', [(C('rep3', V('R'), X), gen.conj([('call', C('=', V('R'), C('row', X, peano(50)))), ('call', C('size', X))])),
                                   (C('size', A('small')), ('true',)), (C('size', A('big')), ('true',))], 'rep3', [V('Q1'), V('Q2')]))
    P.append(('report_deep_first', [(C('rep2', V('R'), X), gen.conj([('call', C('=', V('R'), C('row', peano(50), X))), ('call', C('size', X))])),
                                    (C('size', A('small')), ('true',)), (C('size', A('big')), ('true',))], 'rep2', [V('Q1'), V('Q2')]))
    # a fact whose first argument binds a query variable to a constant and whose second argument is deep: the limit
    # strikes inside the unification of the later argument, after the earlier one has been bound
    for n in (40, 75):
        P.append(('const_then_long%d' % n, [(C('r', A('utrecht'), L([A('a')] * n)), ('true',)), (C('r', A('ams'), L([A('a')] * (n + 1))), ('true',)),
                                             (C('r', A('x'), NIL), ('true',))], 'r', [V('Q'), L([A('a')] * n)]))
    # the same through dynamic facts (asserted through the API in the child): fact matching unifies argument lists
    for n in (40, 75):
        P.append(('dyn_const_then_long%d' % n, [(C('r', A('utrecht'), L([A('a')] * n)), ('true',)), (C('r', A('ams'), L([A('a')] * (n + 1))), ('true',)),
                                                 (C('r', A('x'), NIL), ('true',))], 'r', [V('Q'), L([A('a')] * n)]))
    # the deep term comes from the QUERY side only (facts are shallow): copying the fact succeeds, looking at the
    # query argument overflows after an earlier argument has been bound
    for n in (45, 80):
        P.append(('dyn_query_side_long%d' % n, [(C('r', A('utrecht'), L([A('a'), A('b')])), ('true',)), (C('r', A('ams'), NIL), ('true',)),
                                                (C('r', A('zwolle'), A('none')), ('true',))], 'r', [V('Q'), L([A('a')] * n)]))
        P.append(('query_side_long%d' % n, [(C('r', A('utrecht'), L([A('a'), A('b')])), ('true',)), (C('r', A('ams'), NIL), ('true',)),
                                            (C('r', C('f', V('X')), V('X')), ('true',))], 'r', [V('Q'), L([A('a')] * n)]))
    P.append(('dyn_pair_const_then_deep', [(C('d3', C('pair', A('k'), peano(60))), ('true',)), (C('d3', C('pair', A('m'), peano(61))), ('true',))], 'd3',
              [C('pair', V('Q'), peano(60))]))
    P.append(('const_then_deep', [(C('d2', A('k'), I(1), peano(70)), ('true',)), (C('d2', A('m'), I(2), peano(71)), ('true',))], 'd2',
              [V('Q'), V('R'), peano(70)]))
    # the depth error strikes INSIDE a meta-call or control construct that is followed by further alternatives:
    # whatever absorbs it there (a nested bounded evaluation, a handler) lets the search go on past the point
    # where it has to stop, and the result is no longer a prefix
    for n in (25, 70):
        deep = [(C('deep', A('a')), ('true',)), (C('deep', A('b')), ('true',)),
                (C('deep', X), ('and', ('call', C('down', peano(n))), ('call', C('=', X, A('c')))))] + down
        P.append(('findall_deep_then_more%d' % n, [(C('t', V('L')), ('call', C('findall', X, C('deep', X), V('L')))), (C('t', A('none')), ('true',))] + deep, 't', [V('Q')]))
        P.append(('once_deep_then_more%d' % n, [(C('t', X), ('call', C('once', C('down', peano(n))))), (C('t', A('none')), ('true',))] + deep, 't', [V('Q')]))
        P.append(('not_deep_then_more%d' % n, [(C('t', A('a')), ('not', ('call', C('down', peano(n))))), (C('t', A('b')), ('true',))] + deep, 't', [V('Q')]))
        P.append(('call_deep_then_more%d' % n, [(C('t', X), ('and', ('call', C('=', V('G'), C('down', peano(n)))), ('call', C('call', V('G'))))), (C('t', A('none')), ('true',))] + deep, 't', [V('Q')]))
        P.append(('ite_deep_then_more%d' % n, [(C('t', X), ('or', ('then', ('call', C('down', peano(n))), ('call', C('=', X, A('a')))), ('call', C('=', X, A('b'))))),
                                               (C('t', A('c')), ('true',))] + deep, 't', [V('Q')]))
    # host values as terms: comparing two of them is Python code of its own (frames beyond what the engine itself needs
    # at that point), so the depth limit can strike INSIDE the comparison; the facts hf/2 are asserted through the API
    for n in (12, 30):
        HV = ('py', 'DeepKey(2,depth=12)')
        # (the recursion walks a chain of small facts: no deep term anywhere, so the comparison of the two host values
        # at the end of the chain is the deepest point of the whole search)
        links = [(C('link', A('k%d' % i), A('k%d' % (i + 1))), ('true',)) for i in range(n)]
        P.append(('host_values_compared_deep%d' % n,
                  [(C('find', C('found', V('K')), V('H')), ('call', C('walk', A('k0'), V('H'), V('K')))),
                   (C('find', A('fallback'), V('_')), ('true',)),
                   (C('walk', A('k%d' % n), V('H'), V('K')), ('call', C('hf', V('K'), V('H')))),
                   (C('walk', V('X'), V('H'), V('K')), ('and', ('call', C('link', V('X'), V('Y'))), ('call', C('walk', V('Y'), V('H'), V('K'))))),
                   (C('hf', A('a'), ('py', 'DeepKey(1,depth=12)')), ('true',)), (C('hf', A('b'), HV), ('true',)),
                   (C('hf', A('c'), ('py', 'DeepKey(3,depth=12)')), ('true',))] + links, 'find', [V('Q'), HV]))
    P.append(('deep_then_answers', [(C('d', X), ('and', ('call', C('down', peano(60))), ('call', C('mem', X, L([A('a'), A('b')])))))] + down + mem, 'd', [V('Q')]))
    return P


PROGS = None


def progs():
    global PROGS
    if PROGS is None:
        PROGS = programs()
    return PROGS


FAULTS = [None] + [(k, e) for k in (1, 2, 3, 6) for e in ('Custom', 'RuntimeError', 'StopIteration', 'KeyboardInterrupt')]


def limits(tier):
    hi = 140 if tier == 'quick' else 700
    return list(range(60, hi + 1)) + [x for x in (400, 450, 500, 600, 700, 800, 900, 1000) if x > hi]


BLOCK = 12
CAP = 100          # answers looked at per enumeration (programs with infinitely many answers end at the limit long before)


def nblocks(tier):
    return (len(limits(tier)) + BLOCK - 1) // BLOCK


def space(tier):
    return len(progs()) * nblocks(tier)


def plan(tier, seed):
    n = space(tier)
    if tier == 'quick':
        return {'n': n, 'deadline': 150, 'case_timeout': 60, 'nshards': 8,
                'floor': {'distinct_nontrivial': 800, 'forked_children': 100, 'cases': 1500, 'limit_struck': 300, 'projection_faults': 700,
                          'complete_results_confirmed': 300, 'setrecursionlimit_calls_seen': 3000, 'variables_checked': 3000}}
    return {'n': n, 'deadline': 560, 'case_timeout': 60,
            'floor': {'distinct_nontrivial': 4000, 'forked_children': 600, 'cases': 7000, 'limit_struck': 2500, 'projection_faults': 4000,
                      'complete_results_confirmed': 1500, 'setrecursionlimit_calls_seen': 16000, 'variables_checked': 8000}}


def EXHAUSTIVE(tier):
    return {'programs': len(progs()), 'limits': len(limits(tier)), 'contiguous_limit_range': [60, 140 if tier == 'quick' else 460],
            'cases': len(progs()) * len(limits(tier)), 'note': 'every (program, limit) pair; fault and hold mode chosen per pair from the seed'}


def setup(tier, seed):
    real = Real(clock=True, registry=True)
    exp = {}
    old = sys.getrecursionlimit()
    sys.setrecursionlimit(20000)      # for the reference interpreters only (pure Python, no engine code runs here)
    try:
        for name, cl, qn, qa in progs():
            a = diff.reference([(uniq_clauses(cl), True)], qn, qa, list(qa), maxans=CAP)
            exp[name] = {'discard': a['discard']} if 'discard' in a else {'answers': a['answers']}
    finally:
        sys.setrecursionlimit(old)
    return {'real': real, 'tier': tier, 'limits': limits(tier), 'expected': exp}


def _depth():
    f = sys._getframe()
    n = 0
    while f is not None:
        n += 1
        f = f.f_back
    return n


def child(ctx, prog, limit, fault, hold, nested=False, gv_proj=False, raise_limit=False, headroom=None):
    """runs in a forked child; returns a JSON-able dict"""
    if headroom is not None:
        limit = _depth() + headroom
    real = ctx['real']
    E = real.E
    name, cl, qn, qa = prog
    if name.startswith('dyn_'):
        yp = real.engine()
        for h, b in cl:
            yp.assert_fact(yp.atom(h[1]), [build_real(yp, a, {}) for a in h[2]])
    elif name.startswith('host_'):
        yp = real.engine(real.compile(rprogram([(h, b) for h, b in cl if not (h[0] == 'c' and h[1] == 'hf')])))
        for h, b in cl:
            if h[0] == 'c' and h[1] == 'hf':
                yp.assert_fact(yp.atom('hf'), [build_real(yp, a, {}) for a in h[2]])
    else:
        yp = real.engine(real.compile(rprogram(cl)))
    yp.assert_fact(yp.atom('nestp'), [1])
    yp.assert_fact(yp.atom('nestp'), [2])
    vmap = {}
    rargs = [build_real(yp, t, vmap) for t in qa]
    trace = []
    orig_set = sys.setrecursionlimit

    def traced(n):
        trace.append(n)
        return orig_set(n)
    out = {'name': name, 'limit': limit}
    # 1. direct enumeration under the same limit at the same stack depth (no evaluate_bounded)
    def same_depth():
        for a in rargs:
            E.get_value(a)

    def direct():
        g = yp.query(qn, rargs)
        res = []
        old = sys.getrecursionlimit()
        try:
            try:
                orig_set(limit)
            except RecursionError:
                return res, 'recursion'      # (the limit is below the depth of this very frame)
            try:
                for _ in g:
                    if gv_proj:
                        same_depth()              # the same work the projection will do, at the same stack depth
                    res.append(snap_real_iter(E, rargs))
                    if len(res) >= CAP:
                        return res, 'cap'
                return res, 'complete'
            except RecursionError:
                return res, 'recursion'
        finally:
            orig_set(old)
            g.close()
    out['direct'] = direct()
    gc.collect()
    real.unr.take()
    # the interpreter's limit before the call is not always the default
    base = 1000 if limit % 3 else (940 if limit % 2 else 870)
    if raise_limit and limit >= 400:
        # the requested limit is ABOVE the interpreter's current one: evaluate_bounded must raise it for the call
        orig_set(limit - 250)
    elif base > limit + 50:
        orig_set(base)
    before_limit = sys.getrecursionlimit()
    pre_bound = len(real.reg.bound())
    count = [0]
    exc_obj = {'Custom': Custom('boom'), 'RuntimeError': RuntimeError('boom'), 'StopIteration': StopIteration('boom'),
               'KeyboardInterrupt': KeyboardInterrupt('boom')}

    inner_results = []

    def proj(x):
        count[0] += 1
        if gv_proj:
            # the documented idiom: the projection reads the variables with the engine's own get_value
            # (under the lowered limit this may itself raise RecursionError, which evaluate_bounded swallows)
            for a in rargs:
                E.get_value(a)
        if nested:
            # re-entrant use: the projection runs its own bounded sub-query on the same engine
            iv = yp.variable()
            inner_results.append(len(yp.evaluate_bounded(yp.query('nestp', [iv]), lambda y: 1, limit + 37)))
        if fault and count[0] == fault[0]:
            raise exc_obj[fault[1]]
        if count[0] >= CAP:
            raise StopIteration('cap')          # the documented way to stop: treated as end of results
        return snap_real_iter(E, rargs)
    sys.setrecursionlimit = traced
    res = None
    exc = None
    q = yp.query(qn, rargs)
    try:
        try:
            if hold:
                res = yp.evaluate_bounded(q, proj, limit)
            else:
                res = yp.evaluate_bounded(yp.query(qn, rargs), proj, limit)
        finally:
            sys.setrecursionlimit = orig_set
    except BaseException as e:
        exc = {'type': type(e).__name__, 'same_object': e is exc_obj.get(fault[1]) if fault else False}
        e = None
    # the pre-built exception objects carry tracebacks that keep evaluate_bounded's frame (and the
    # generator in it) alive: release them, as a caller leaving its except block would
    exc_obj.clear()
    after_limit = sys.getrecursionlimit()
    if hold:
        # the caller still holds the query object: evaluate_bounded has finished it (since F22 it closes an
        # unfinished query itself), so the variables are unbound already - before the caller lets go of it
        out['bound_while_caller_holds_the_query'] = len(real.reg.bound()) - pre_bound
        q.close()
    q = None
    left = len(real.reg.bound())
    if left > pre_bound:
        gc.collect()
        left = len(real.reg.bound())
        out['needed_gc'] = True
    orig_set(1000)
    out['inner_results'] = inner_results[:20]
    # the engine and the variables must be usable afterwards: the same query enumerated directly (no limit), observed
    # through the public get_value, gives the reference answers again
    # each query variable can be bound to something new and read back through the public get_value
    probe_bad = []
    try:
        # (which variable is read first rotates with the limit: a stale per-resolution cache shows only on the
        # first read after the aborted search, any other successful read would clear it)
        order_ = list(range(len(rargs)))
        rot = limit % max(1, len(order_))
        for i in order_[rot:] + order_[:rot]:
            v = rargs[i]
            if isinstance(v, E.Variable):
                pa = yp.atom('ypv_probe_%d' % i)
                n_y = 0
                for _ in E.unify(v, pa):
                    n_y += 1
                    got_v = E.get_value(v)
                    if got_v is not pa:
                        probe_bad.append([i, repr(snap_real_iter(E, [got_v]))[:80]])
                if n_y != 1:
                    probe_bad.append([i, 'unify yielded %d times' % n_y])
    except Exception as e3:
        probe_bad.append(['exception', type(e3).__name__])
    out['probe_bad'] = probe_bad
    again = []
    try:
        g2 = yp.query(qn, rargs)
        for _ in g2:
            # read the variables last-to-first this time (a stale cache is only visible before another read clears it)
            rev = snap_real(E, list(reversed(rargs)))
            again.append(tuple(reversed(rev)) if isinstance(rev, tuple) and rev != ('cyclic',) else rev)
            if len(again) >= 12:
                break
        g2.close()
        out['again'] = again
    except RecursionError:
        out['again'] = 'RecursionError'
    except Exception as e2:
        out['again'] = 'EXC ' + type(e2).__name__ + ': ' + str(e2)[:100]
    out.update({'result': res, 'exc': exc, 'before_limit': before_limit, 'after_limit': after_limit, 'trace': trace,
                'bound_after': left - pre_bound, 'live_variables': len(real.reg.live), 'unraisable': real.unr.take()[:3],
                'query_vars_unbound': all(not (isinstance(v, E.Variable) and is_bound(v)) for v in rargs)})
    return out


def run_forked(ctx, prog, jobs, timeout=60):
    """jobs: list of (limit, fault, hold) run one after the other in ONE forked child (the child stops at the
    first job that leaves the recursion limit changed, so that later jobs are not judged on a dirty interpreter)"""
    rfd, wfd = os.pipe()
    pid = os.fork()
    if pid == 0:
        os.close(rfd)
        signal.setitimer(signal.ITIMER_REAL, 0)
        try:
            out = []
            for job in jobs:
                limit, fault, hold = job[0], job[1], job[2]
                o = child(ctx, prog, limit, fault, hold, nested=(len(job) > 3 and job[3]), gv_proj=(len(job) > 4 and job[4]), raise_limit=(len(job) > 5 and job[5]),
                          headroom=(job[6] if len(job) > 6 else None))
                out.append(o)
                if o['after_limit'] != o['before_limit'] or o['bound_after'] > 0:
                    break
            data = json.dumps({'ok': out}, default=repr).encode()
        except BaseException as e:
            import traceback
            data = json.dumps({'crash': traceback.format_exc()[-1500:]}).encode()
        try:
            with os.fdopen(wfd, 'wb') as f:
                f.write(data)
        finally:
            os._exit(0)
    os.close(wfd)
    buf = b''
    end = time.time() + timeout
    timed_out = False
    while True:
        left = end - time.time()
        if left <= 0:
            timed_out = True
            break
        r, _, _ = select.select([rfd], [], [], left)
        if not r:
            timed_out = True
            break
        chunk = os.read(rfd, 1 << 16)
        if not chunk:
            break
        buf += chunk
    os.close(rfd)
    if timed_out:
        try:
            os.kill(pid, signal.SIGKILL)
        except OSError:
            pass
    _, status = os.waitpid(pid, 0)
    if timed_out:
        return {'timeout': True}
    if not buf:
        return {'died': True, 'signal': status & 0x7f, 'status': status}
    return json.loads(buf.decode())


def norm(x):
    if isinstance(x, (list, tuple)):
        return [norm(y) for y in x]
    return x


def merge(results):
    """combine per-job results of one block into one harness result"""
    c = {}
    keys = []
    sample = None
    v = None
    disc = None
    from ..harness import h64
    for r in results:
        for k, n in r.get('c', {}).items():
            c[k] = c.get(k, 0) + n
        if r.get('nt') and r.get('key') is not None:
            keys.append(h64(r['key']))
        if r.get('sample') and sample is None:
            sample = r['sample']
        if r.get('v') and v is None:
            v = r['v']
        if r.get('discard') and disc is None:
            disc = r['discard']
    out = {'c': c, 'nt': False, 'key': None, 'multi_keys': keys, 'sample': sample}
    if v:
        out['v'] = v
    if disc and not keys:
        out['discard'] = disc
    return out


def run_case(ctx, seed, idx, tier):
    lims = ctx['limits']
    P = progs()
    nb = (len(lims) + BLOCK - 1) // BLOCK
    prog = P[idx // nb]
    block = lims[(idx % nb) * BLOCK:(idx % nb) * BLOCK + BLOCK]
    jobs = []
    for limit in block:
        rng = random.Random((seed * 1000003 + idx) * 7 + 17 + limit * 1009)
        fault = rng.choice(FAULTS[1:]) if rng.random() < 0.6 else None
        hold = rng.random() < 0.4
        jobs.append((limit, fault, hold, rng.random() < 0.2, rng.random() < 0.35, rng.random() < 0.5))
    # the caller's stack only a few frames below the limit it passes (limit = its own depth + 4..16): whatever
    # evaluate_bounded itself does after the abort (logging, clean-up) has next to no stack left to do it in
    if any(l >= 400 for l in block):
        # pinned (F22): the interpreter's own limit is LOWER than the requested one and the projection ends the
        # evaluation at the first / second answer while a deep search is suspended - unwinding it needs the high limit
        big = min(l for l in block if l >= 400)
        jobs.append((big, (1, 'StopIteration'), False, False, False, True))
        jobs.append((big, (2, 'Custom'), False, False, False, True))
    rng = random.Random((seed * 1000003 + idx) * 7 + 171)
    for h in rng.sample(range(4, 17), 2):
        jobs.append((0, None, False, False, False, False, h))
    r = run_forked(ctx, prog, jobs)
    c0 = {'forked_children': 1}
    if r.get('timeout') or r.get('died') or 'crash' in r:
        # pinpoint: one child per job
        results = []
        for job in jobs:
            r1 = run_forked(ctx, prog, [job])
            c0['forked_children'] += 1
            results.append(judge(ctx, prog, job, r1, idx))
        results.append({'c': c0})
        return merge(results)
    outs = r['ok']
    results = [judge(ctx, prog, job, {'ok': [o]}, idx) for job, o in zip(jobs, outs)]
    if len(outs) < len(jobs):
        # the child stopped after a job that left the interpreter dirty: run the rest separately
        for job in jobs[len(outs):]:
            r1 = run_forked(ctx, prog, [job])
            c0['forked_children'] += 1
            results.append(judge(ctx, prog, job, r1, idx))
    results.append({'c': c0})
    return merge(results)


def judge(ctx, prog, job, r, idx):
    limit, fault, hold = job[0], job[1], job[2]
    nested = len(job) > 3 and job[3]
    gv_proj = len(job) > 4 and job[4]
    raise_limit = len(job) > 5 and job[5] and limit >= 400
    c = {'cases': 1}
    if raise_limit:
        c['limit_above_interpreter_limit'] = 1
    if gv_proj:
        c['projection_uses_get_value'] = 1
    if nested:
        c['nested_evaluate_bounded'] = 1
    w = {'program': rprogram(prog[1]), 'name': prog[0], 'query': '%s(%s)' % (prog[2], ','.join(rterm(a) for a in prog[3])),
         'limit': limit, 'fault': fault, 'hold_generator': hold, 'idx': idx, 'nested': nested, 'gv_proj': gv_proj, 'raise_limit': raise_limit}
    key = (prog[0], limit, fault, hold, nested, gv_proj, raise_limit)
    expd = ctx['expected'][prog[0]]
    if prog[0] == 'leftrec' and 'discard' in expd:
        expd = {'answers': []}     # by construction: infinite left recursion before any answer
    if 'discard' in expd:
        return {'c': c, 'nt': False, 'key': None, 'discard': 'reference:' + expd['discard']}
    exp = norm(expd['answers'])

    def viol(kind, detail):
        return {'c': c, 'nt': True, 'key': key, 'v': {'kind': kind, 'detail': detail, 'witness': w}}
    if r.get('timeout'):
        return {'c': c, 'nt': False, 'key': None, 'discard': 'child_timeout'}
    if r.get('died'):
        return viol('child_process_died', {'signal': r['signal'], 'status': r['status']})
    if 'crash' in r:
        return viol('harness_or_engine_crash_in_child', {'traceback': r['crash']})
    o = r['ok'][0]
    if len(job) > 6 and job[6] is not None:
        limit = o.get('limit', limit)
        c['caller_within_16_frames_of_the_limit'] = 1
        key = (prog[0], 'headroom', job[6])
        w['limit'] = limit
        w['headroom'] = job[6]
    c['setrecursionlimit_calls_seen'] = len(o['trace'])
    c['variables_checked'] = o['live_variables']
    res = o['result']
    direct, dstat = o['direct']
    # the direct enumeration itself must agree with the reference (sanity of the oracle)
    # (the direct enumeration only says how far the search gets under this limit; the verdict on the result is
    # against the reference answers. If the two disagree - never seen on the unchanged tree - the completeness
    # part is skipped and the rest is still judged.)
    direct_ok = direct == exp[:len(direct)]
    if not direct_ok:
        c['direct_enumeration_differs_from_reference'] = 1
    nproj_cap = CAP - 1
    if o['exc'] is not None:
        et = o['exc']['type']
        if et == 'RecursionError':
            return viol('recursion_error_escaped', {'exc': o['exc']})
        if not fault or et != fault[1] or fault[1] in ('RuntimeError', 'StopIteration'):
            return viol('unexpected_exception', {'exc': o['exc'], 'fault': fault})
        if not o['exc']['same_object']:
            return viol('projection_exception_changed', {'exc': o['exc']})
        c['projection_faults'] = 1
    else:
        if fault and fault[1] in ('Custom', 'KeyboardInterrupt'):
            # the fault must have fired unless the search ended before the k-th answer
            reached = dstat_answers(direct, dstat, exp)
            if reached >= fault[0] and dstat == 'complete' and len(exp) >= fault[0]:
                return viol('projection_exception_swallowed', {'fault': fault, 'result_len': len(res or [])})
        if res is None:
            return viol('no_result', {})
        if res != exp[:len(res)]:
            return viol('result_is_not_a_prefix_of_the_answers', {'expected_prefix': exp[:len(res)][:3], 'got': res[:3], 'n': len(res)})
        want_complete = None
        if not direct_ok:
            pass
        elif dstat == 'complete' and not fault:
            want_complete = direct
        elif dstat == 'cap' and not fault:
            want_complete = direct[:nproj_cap]
        if want_complete is not None:
            if len(res) < min(len(want_complete), nproj_cap):
                return viol('result_incomplete_although_search_fits_in_limit',
                            {'got': len(res), 'direct_enumeration_under_same_limit': len(want_complete)})
            c['complete_results_confirmed'] = 1
        if fault:
            c['projection_faults'] = 1
            if fault[1] in ('RuntimeError', 'StopIteration') and len(res) >= fault[0] and dstat != 'recursion':
                return viol('result_longer_than_fault_point', {'fault': fault, 'got': len(res)})
    if o['after_limit'] != o['before_limit']:
        return viol('recursion_limit_not_restored', {'before': o['before_limit'], 'after': o['after_limit'], 'trace': o['trace']})
    if o.get('inner_results') and any(n != 2 for n in o['inner_results']):
        return viol('nested_evaluate_bounded_wrong_result', {'inner_results': o['inner_results']})
    if not o['trace'] or o['trace'][0] != limit or o['trace'][-1] != o['before_limit']:
        return viol('unexpected_setrecursionlimit_trace', {'trace': o['trace'], 'limit': limit, 'before': o['before_limit']})
    if o.get('needed_gc'):
        # CPython finalises the abandoned search when evaluate_bounded returns (reference counting); the unchanged tree
        # never needs a garbage collection pass for that, so needing one means something keeps the search alive
        return viol('variables_unbound_only_after_a_gc_pass', {'bound_after_gc': o['bound_after']})
    if o.get('bound_while_caller_holds_the_query', 0) > 0:
        return viol('variables_left_bound', {'while_the_caller_still_holds_the_query_object': o['bound_while_caller_holds_the_query']})
    if o['bound_after'] > 0 or not o['query_vars_unbound']:
        return viol('variables_left_bound', {'bound_after': o['bound_after'], 'query_vars_unbound': o['query_vars_unbound'],
                                             'needed_gc': o.get('needed_gc', False)})
    if o['unraisable']:
        return viol('exception_in_finaliser', {'events': o['unraisable']})
    if o.get('probe_bad'):
        return viol('query_variable_not_usable_after_evaluate_bounded', {'probes': o['probe_bad'][:3]})
    ag = o.get('again')
    if isinstance(ag, list):
        if ag != exp[:len(ag)] or (len(ag) < min(len(exp), 12)):
            return viol('query_gives_other_answers_after_evaluate_bounded', {'expected': exp[:3], 'got': ag[:3], 'n_expected': len(exp), 'n_got': len(ag)})
        c['rerun_after_bounded_call'] = 1
    elif isinstance(ag, str) and ag.startswith('EXC'):
        return viol('query_raises_after_evaluate_bounded', {'error': ag})
    struck = dstat == 'recursion'
    if struck:
        c['limit_struck'] = 1
    nt = struck or bool(fault)
    out = {'c': c, 'nt': nt, 'key': key}
    if nt:
        out['sample'] = {'program': prog[0], 'query': w['query'], 'limit': limit, 'fault': fault, 'hold': hold,
                         'result_len': None if res is None else len(res), 'direct': [len(direct), dstat],
                         'exception': o['exc'], 'setrecursionlimit_trace': o['trace']}
    return out


def dstat_answers(direct, dstat, exp):
    return len(direct)


def replay(ctx, w):
    prog = [p for p in progs() if p[0] == w['name']][0]
    fault = tuple(w['fault']) if w['fault'] else None
    job = (w['limit'], fault, w['hold_generator'], w.get('nested', False), w.get('gv_proj', False), w.get('raise_limit', False))
    return judge(ctx, prog, job, run_forked(ctx, prog, [job]), w.get('idx', 0))
