"""C05 - cut commits the clause and nothing else."""
import random
from .. import gen
from ..real import Real
from ..terms import V, A, C, L
from . import control
from .common import diff_replay

PROPERTY = 'C05'
LEVEL = 'exploration'
RULE = ('clause bodies over leaf predicates with 0/1/2/3 solutions, true, fail, ! and , ; -> \\+ '
        '(cut only in transparent positions: top level, branch of ;, then/else of ->), 1-3 clauses, '
        'called from top/N whose own alternatives must survive, also loaded as several definition '
        'groups (overwrite=False); plus a bounded-exhaustive slice (all bodies with <= K leaves over '
        '{z,o,m,!,true,fail} x {",",";","->"}). Every leaf call binds a fresh head variable so an '
        'answer identifies the path. Non-trivial = the reference executed a cut that pruned at '
        'least one alternative; distinct = hash of program text')
ASSUMPTIONS = ['reference interpreters A and B agree (ISO cut semantics: local in conditions, '
               'transparent in branches)', 'bodies with a cut inside a condition of -> or under \\+ '
               'are not generated / skipped (positions outside the statement)',
               'clauses needing more than 20 nested Python blocks are rejected by the compiler and discarded']
RULE_ADDED = (' Added after the rounds of independently written changes (DESIGN.md 12.2): ' +
              '12-19 goal clauses with a cut at every position; clause-selecting head patterns; clause-local variables aliased to head variables; the queried predicate name at other arities.')
RULE = RULE + RULE_ADDED

KQUICK, KTHOROUGH = 3, 4


def plan(tier, seed):
    if tier == 'quick':
        blocks, total = control.enum_space(KQUICK)
        return {'n': 9000 + total, 'deadline': 150, 'floor': {'distinct_nontrivial': 800, 'cuts_executed': 2000},
                'exh': total}
    blocks, total = control.enum_space(KTHOROUGH)
    return {'n': 260000 + total, 'deadline': 560, 'floor': {'distinct_nontrivial': 20000, 'cuts_executed': 50000},
            'exh': total}


def EXHAUSTIVE(tier):
    k = KQUICK if tier == 'quick' else KTHOROUGH
    return {'leaves_max': k, 'bodies': control.enum_space(k)[1]}


def setup(tier, seed):
    k = KQUICK if tier == 'quick' else KTHOROUGH
    blocks, total = control.enum_space(k)
    return {'real': Real(), 'blocks': blocks, 'exh': total, 'labels': set()}


def _nt(refa, exp):
    return refa.cuts_executed > 0 and refa.cut_pruned > 0


def corpus():
    o, m, n = (lambda v: ('call', C('o', V(v)))), (lambda v: ('call', C('m', V(v)))), (lambda v: ('call', C('n', V(v))))
    cut = ('cut',)
    return [
        {'bodies': [('and', cut, m('V1')), m('V1')], 'nv': 1},                 # first goal
        {'bodies': [('and', m('V1'), ('and', cut, n('V2'))), ('and', o('V1'), o('V2'))], 'nv': 2},   # middle
        {'bodies': [('and', m('V1'), cut), o('V1')], 'nv': 1},                 # last goal
        {'bodies': [('or', ('and', m('V1'), cut), o('V1')), o('V1')], 'nv': 1},  # in a branch of ;
        {'bodies': [('or', ('then', o('V1'), ('and', m('V2'), cut)), o('V2')), ('and', o('V1'), o('V2'))], 'nv': 2},
        {'bodies': [('or', ('then', ('fail',), o('V1')), ('and', m('V1'), cut)), o('V1')], 'nv': 1},  # in else
    ]


def run_corpus(ctx, item):
    clauses, qn, na = control.wrap_body(item['bodies'], item['nv'])
    return control.run_control(ctx, clauses, qn, na, None, {}, _nt)


def long_body_case(ctx, rng, nt_fn):
    # long clauses (up to the compiler's size limit) with a cut somewhere, also inside a trailing if-then-else
    n = rng.choice([9, 10, 12, 15, 16, 17, 18, 19])
    goals = []
    nv = 0
    cutpos = rng.randrange(1, n)
    lead_or = rng.random() < 0.4
    for i in range(n):
        if i == cutpos:
            # the cut at the top level of the body, or inside a branch of a construct that is one of the goals
            k = rng.random()
            if k < 0.5:
                goals.append(('cut',))
            elif k < 0.7:
                nv += 1
                goals.append(('or', ('then', ('call', C('o', V('V%d' % nv))), ('cut',)), ('true',)))
            elif k < 0.85:
                goals.append(('or', ('cut',), ('fail',)))
            else:
                nv += 1
                goals.append(('or', ('then', ('call', C('z', V('V%d' % nv))), ('true',)), ('cut',)))
            continue
        if i == 0 and lead_or:
            # a disjunction in front of a long continuation
            nv += 2
            goals.append(('or', ('call', C('m', V('V%d' % (nv - 1)))), ('call', C('n', V('V%d' % nv)))))
            continue
        nv += 1
        goals.append(('call', C(rng.choice(['m', 'm'] if i < 2 or i == n - 1 else ['o']), V('V%d' % nv))))
    if rng.random() < 0.3:
        nv += 1
        goals[-1] = ('or', ('then', ('call', C('o', V('V%d' % nv))), ('cut',)), ('true',))
    body = gen.conj(goals)
    clauses, qn, na = control.wrap_body([body, conj_all(nv)], nv, rng)
    return control.run_control(ctx, clauses, qn, na, rng, {'long_bodies': 1}, nt_fn)


def output_after_cut_case(ctx, rng, nt_fn):
    """the textbook idiom `p(In, Out) :- [guard,] !, Out = result(In).` with later clauses that also match, called
    with Out unbound, bound to the result, bound to something else, partially bound: the unification after the cut
    is a TEST that may fail after the commit (then the whole call fails - later clauses are not tried)"""
    K, R, S = V('K'), V('R'), V('S')
    structs = [C('round', K), L([K]), C('pair', K, A('m0')), A('plain'), C('round', A('m0')), L([A('m0'), K]), A('plain'), C('round', A('m1')), A('yes')]
    clauses = list(gen.leaf_facts())
    ncl = rng.choice([2, 2, 3])
    for i in range(ncl):
        last = i == ncl - 1
        # (the key as a plain variable, a constant, or inside a structure / a list - where it is not a 'head variable'
        # for analyses that only look at direct arguments)
        hk = rng.choice([K, K, A('m0'), A('m1'), C('s', K), C('s', K), L([K]), C('item', K, K)])
        goals = []
        if rng.random() < 0.6:
            goals.append(('call', C(rng.choice(['ev', 'od', 'm']), K if hk[0] != 'a' else A('m0'))))
        if not last or rng.random() < 0.3:
            goals.append(('cut',))
        out = rng.choice(structs)
        goals.append(('call', C('=', R, out) if rng.random() < 0.8 else C('=', out, R)))
        if rng.random() < 0.3:
            goals.append(('call', C('m', S)))
        head = C('t', hk, R, S)
        clauses.append((head, gen.conj(goals)))
    pre = []
    kq = rng.choice([A('m0'), A('m1'), V('Q1'), V('Q1'), C('s', A('m0')), C('s', V('Q4')), L([V('Q5')]), C('item', V('Q4'), V('Q5'))])
    rq = rng.choice([V('Q2'), V('Q2'), C('round', A('m0')), C('round', A('m1')), C('angular', A('m0')), L([V('Q4')]), A('plain'),
                     C('pair', V('Q4'), V('Q5')), C('round', V('Q4'))])
    clauses.append((C('top', V('W'), V('Q1'), V('Q2'), V('Q3'), V('Q4'), V('Q5')),
                    gen.conj([('call', C('m', V('W'))), ('call', C('=', V('Q1'), kq)) if kq[0] != 'v' else ('true',),
                              ('call', C('=', V('Q2'), rq)) if rq != V('Q2') else ('true',), ('call', C('t', V('Q1'), V('Q2'), V('Q3')))])))
    return control.run_control(ctx, clauses, 'top', 6, rng, {'output_unification_after_cut': 1}, nt_fn)


def run_case(ctx, seed, idx, tier):
    if idx < ctx['exh']:
        body, nv = control.enum_body(idx, ctx['blocks'])
        c = {'exhaustive_bodies': 1}
        if not control.transparent(body):
            return {'c': {'exhaustive_bodies': 1}, 'discard': 'cut_in_condition', 'nt': False, 'key': None}
        # second clause so that "later clauses are discarded" is observable
        clauses, qn, na = control.wrap_body([body, control.enum_body(0, ctx['blocks'])[0] if False else
                                             conj_all(nv)], nv)
        return control.run_control(ctx, clauses, qn, na, None, c, _nt)
    rng = random.Random((seed * 1000003 + idx) * 7 + 5)
    if rng.random() < 0.1:
        return long_body_case(ctx, rng, _nt)
    if rng.random() < 0.06:
        return output_after_cut_case(ctx, rng, _nt)
    w = {'and': 0.50, 'or': 0.20, 'ite': 0.15, 'then': 0.07, 'not': 0.08}
    clauses, qn, na = gen.gen_control_case(rng, weights=w, allow_cut_p=1.0)
    c = {'random_bodies': 1}
    if rng.random() < 0.4:
        bodies = [b for h, b in clauses if h[1] == 't']
        clauses, qn, na = control.wrap_body(bodies, na - 1, rng)
        if any(h[0] == 'c' and h[1] == 't' and len(h[2]) >= 2 and h[2][0][1] in ('S', '_', 'K1', 'm0', 'm1') for h, b in clauses):
            c['clause_selecting_heads'] = 1
    loads = None
    if rng.random() < 0.25:
        # the same predicate defined by several loads: each group keeps its own cuts
        tcl = [cl for cl in clauses if cl[0][1] == 't']
        rest = [cl for cl in clauses if cl[0][1] != 't']
        if len(tcl) >= 2:
            k = rng.randrange(1, len(tcl))
            loads = [(rest + tcl[:k], True), (tcl[k:], False)]
            c['multi_group_loads'] = 1
    return control.run_control(ctx, clauses, qn, na, rng, c, _nt, loads=loads,
                               minimal=rng.random() < 0.8)


def conj_all(nv):
    """t(V1..Vn) :- o(V1), ..., o(Vn).  -- a later clause that succeeds once"""
    goals = [('call', C('o', V('V%d' % i))) for i in range(1, nv + 1)]
    return gen.conj(goals)


def replay(ctx, w):
    return diff_replay(ctx['real'], w)
