"""helpers shared by the answer-differential checks"""
from ..harness import h64


def result_from_diff(d, nontrivial, key, counters=None, sample=None):
    c = dict(counters or {})
    r = {'c': c, 'nt': False, 'key': key}
    st = d['status']
    if st == 'discard':
        r['discard'] = d['reason']
        if d['reason'] == 'oracle_disagreement':
            c['oracle_disagreement'] = 1
        return r
    exp = d['exp']
    c['answers_compared'] = len(exp['answers'])
    c['ref_steps'] = exp['refA'].steps
    c['engine_steps'] = d.get('steps', 0) or 0
    c['sto_checks'] = exp['refA'].sto_checks
    if st == 'violation':
        r['v'] = {'kind': d['kind'], 'detail': d['detail'], 'witness': d['witness']}
        r['nt'] = True
        return r
    r['nt'] = bool(nontrivial)
    if sample is not None:
        r['sample'] = sample
    return r


def diff_replay(real, w):
    from .. import diff
    d = diff.replay_witness(real, w)
    if d['status'] == 'violation':
        return {'v': {'kind': d['kind'], 'detail': d['detail'], 'witness': w},
                'expected': d.get('expected'), 'got': d.get('got')}
    return {'v': None, 'info': d}
