"""C12 - Prolog text cannot become Python code; loaded code sees only the engine API."""
import ast
import random
import sys
import types
from .. import gen, diff
from ..real import Real
from ..terms import V, A, C, I, L, NIL, rterm, ratom, snap_real, build_real, canon, term_vars
from ..observe import SCRIPT_FN, StepBudget, Ctx

PROPERTY = 'C12'
LEVEL = 'exploration'
RULE = ('hostile programs: every atom, functor name, goal name, head name and variable name is drawn from pools of '
        'hostile strings (quotes, backslash-quote, line breaks followed by Python statements, calls of __import__, '
        'format/f-string fragments, names of every engine-context key and of Python builtins), each carrying a unique '
        'marker, placed in every syntactic position (fact argument, head name, goal name, functor name, list element, '
        '= operand, variable). Monitors: (1) emitted code: must parse; module body = one FunctionDef per head and '
        'nothing else; only whitelisted AST node types; every call target is a Name of an engine API function; every '
        'string constant equals one source name exactly (taint rule: source text only inside constants); names loaded '
        'are function-local or engine-context keys; names stored never shadow a context key; (2) execution: audit '
        'hook during load and queries may see only the compile/exec of the script; sys.monitoring CALL events inside '
        'script code may target only this engine\'s API callables; co_names of script code objects within the API; '
        '(3) hostile run-time queries (eval, exec, __import__, every context key, x_1, p_n, names with line breaks; '
        'arities 0-3): no answer, no exception, no audit event, no API function invoked as a predicate (spies in the '
        'context); (4) renaming a clause\'s variables to hostile names changes no answer. Non-trivial = program with '
        '>= 3 hostile strings that compiled; distinct = hash of the program text')
ASSUMPTIONS = ['head names that are not identifiers are rejected by the compiler (counted, not judged)',
               'the AST whitelist describes the code shapes the generator is documented to emit (loops over query/unify, '
               'assignments, yield/return/break, if on flags)']
RULE_ADDED = (' Added after the rounds of independently written changes (DESIGN.md 12.2): ' +
              'long atoms with characters that need escaping at every offset; output written to a file and loaded with load_script_from_file; encoding declarations and UTF-7 sequences in atoms; hostile queries after clear(); variable names next to the reserved ones.')
RULE = RULE + RULE_ADDED

ALLOWED_NODES = (ast.Module, ast.FunctionDef, ast.arguments, ast.arg, ast.Assign, ast.Name, ast.Load, ast.Store, ast.Call,
                 ast.Constant, ast.List, ast.For, ast.If, ast.Expr, ast.Yield, ast.Return, ast.Break, ast.Pass)

HOSTILE = [
    "'); import os; ('", '\nimport os\n', '"+__import__("os").system("id")+"', '{0.__class__}', "x'+str(1)+'", '%s%s',
    '\\\'; raise SystemExit #'.replace('\\\\', ''), ']); query = None; ([', ') for x in [1]: pass\n', '__import__', 'eval',
    'exec("1")', 'lambda: 0', 'f"{1+1}"', "''' + 1 + '''", '"""', '#', '\r\nos.system("x")', '\x00', ' import os', 'é=1',
    '1+1', 'True', 'None', 'query', 'atom', 'unify', '__builtins__', 'ATOM_NIL', ':=', '\t', '`id`', '$(id)', '${x}',
    # what a tool reading the generated FILE might interpret: an encoding declaration, UTF-7 shift sequences
    'coding: utf_7', 'coding=utf_7', ' -*- coding: utf-7 -*-', 'coding: rot13', "+ACc- if atom(+ACc-injected+ACc-) else +ACc-", '+AAo-import os+AAo-',
    # every character that ends a line for some tool, followed by a statement
    '\rATTACK = atom #', '\r\nATTACK = 1', '\x0bATTACK = 1', '\x0cATTACK = 1', '\x1cATTACK = 1', '\x1dATTACK = 1',
    '\x1eATTACK = 1', '\x85ATTACK = 1', '\u2028ATTACK = 1', '\u2029ATTACK = 1',
]
HOSTILE_VARS = ['True', 'False', 'None', '__debug__', 'ATOM_NIL', '__builtins__', '__import__', '__name__', '__class__',
                'Exception', 'ATOM_NIL_', 'True_', '_', '__', 'Query', 'Unify', '_query', '_atom', 'X', 'Y']
HOSTILE_VARS = HOSTILE_VARS + [v for v in gen.NEAR_RESERVED if v not in HOSTILE_VARS]
IDENT_HEADS = ['p', 'q', 'query', 'atom', 'unify', 'eval', 'exec', 'variable', 'functor', 'makelist', 'class', 'import',
               'lambda', 'x_1', 'p_n', '__init__', 'os', 'sys']


def plan(tier, seed):
    if tier == 'quick':
        return {'n': 24000, 'deadline': 150,
                'floor': {'distinct_nontrivial': 8000, 'programs_compiled': 10000, 'ast_nodes_checked': 1000000,
                          'string_constants_checked': 100000, 'hostile_strings_emitted': 60000, 'loads_audited': 10000,
                          'call_events_checked': 80000, 'hostile_queries': 100000, 'renamings_compared': 3000,
                          'hostile_heads_rejected': 1000}}
    return {'n': 560000, 'deadline': 540,
            'floor': {'distinct_nontrivial': 30000, 'programs_compiled': 50000, 'ast_nodes_checked': 5000000,
                      'string_constants_checked': 500000, 'hostile_strings_emitted': 250000, 'loads_audited': 50000,
                      'call_events_checked': 300000, 'hostile_queries': 300000, 'renamings_compared': 15000,
                      'hostile_heads_rejected': 5000}}


class Audit:
    """one audit hook per worker process, recording only inside a window"""

    def __init__(self):
        self.on = False
        self.events = []
        sys.addaudithook(self._hook)

    def _hook(self, name, args):
        if self.on:
            self.events.append(name)

    def window(self):
        self.events = []
        self.on = True

    def close(self):
        self.on = False
        e, self.events = self.events, []
        return e


class CallMon:
    TOOL = 3

    def __init__(self):
        self.seen = []
        m = sys.monitoring
        m.use_tool_id(self.TOOL, 'ypv-calls')
        m.register_callback(self.TOOL, m.events.CALL, self._cb)

    def _cb(self, code, offset, callable_, arg0):
        if code.co_filename != SCRIPT_FN:
            return sys.monitoring.DISABLE
        self.seen.append(callable_)

    def start(self):
        self.seen = []
        sys.monitoring.set_events(self.TOOL, sys.monitoring.events.CALL)

    def stop(self):
        sys.monitoring.set_events(self.TOOL, 0)
        s, self.seen = self.seen, []
        return s


def setup(tier, seed):
    real = Real(clock=True)
    return {'real': real, 'audit': Audit(), 'calls': CallMon()}


def hostile_text(rng, k):
    if rng.random() < 0.08:
        # long atoms: a character that needs escaping at an offset around typical line widths, then a payload
        n = rng.choice([60, 70, 72, 76, 78, 79, 80, 98, 99, 100, 118, 119, 120, 196, 197, 198, 199, 200, 201, 250, 398, 399, 400])
        pre = 'MK%d' % k
        return pre + 'A' * max(0, n - len(pre) + rng.choice([-2, -1, 0, 0, 1])) + rng.choice(['\n', "'", '\t', '\r', '\x00', 'é', '\u2028']) + \
            rng.choice(['ot in [query.__self__.__setattr__("pwned",1)])):#', 'import os', ' + 1', "');x=1;('", 'B' * 30])
    return 'MK%d' % k + rng.choice(HOSTILE)


def gen_hostile(rng):
    """-> (source text, names: set of atom/functor/goal strings, heads, variables, n_hostile)"""
    names = set()
    mk = [0]

    def hs():
        mk[0] += 1
        t = hostile_text(rng, mk[0]).replace('\\', '')
        names.add(t)
        return t

    def atomsrc(t):
        return "'" + t.replace("'", "\\'") + "'"
    vars_ = rng.sample(HOSTILE_VARS, rng.choice([1, 2, 3, 4]))

    def term(d):
        r = rng.random()
        if d <= 0 or r < 0.35:
            r2 = rng.random()
            if r2 < 0.5:
                return atomsrc(hs())
            if r2 < 0.8:
                return rng.choice(vars_)
            return str(rng.randrange(100))
        if r < 0.65:
            return atomsrc(hs()) + '(' + ','.join(term(d - 1) for _ in range(rng.choice([1, 2]))) + ')'
        if r < 0.85:
            return '[' + ','.join(term(d - 1) for _ in range(rng.choice([1, 2, 3]))) + ']'
        return '[' + term(d - 1) + '|' + rng.choice(vars_) + ']'
    clauses = []
    heads = set()
    hostile_head = False
    for _ in range(rng.choice([1, 2, 3])):
        if rng.random() < 0.12:
            hn_text = hs()
            hn = atomsrc(hn_text)
            hostile_head = True
            hname = hn_text
        else:
            hname = rng.choice(IDENT_HEADS)
            if rng.random() < 0.3:
                hname = 'mk%d_%s' % (mk[0], hname)
            hn = hname if rng.random() < 0.7 else "'" + hname + "'"
        ar = rng.choice([0, 1, 2])
        head = hn + ('(' + ','.join(term(1) for _ in range(ar)) + ')' if ar else '')
        heads.add((hname, ar))
        goals = []
        for _ in range(rng.choice([0, 1, 2, 3])):
            r = rng.random()
            if r < 0.06:
                # names the code generator uses internally must be ordinary predicate names when they come from source text
                g = rng.choice(['$CUTIF', '$CUTIF', '$cutif', '$CUT', '$BREAK', 'cutIf1'])
                names.add(g)
                arg = rng.choice(['zz = 1; yy', 'query = None; x', 'cutIf1'])
                names.add(arg)
                goals.append("'" + g + "'('" + arg + "')")
                if rng.random() < 0.5:
                    goals.append(atomsrc(hs()) + '(' + term(1) + ')')
            elif r < 0.4:
                g = hs()
                goals.append(atomsrc(g) + '(' + ','.join(term(1) for _ in range(rng.choice([1, 2]))) + ')')
            elif r < 0.55:
                goals.append(atomsrc(hs()))
            elif r < 0.8:
                goals.append(term(1) + rng.choice([' = ', ' \\= ']) + term(2))
                names.update(['=', '\\='])
            elif r < 0.9:
                goals.append('\\+ ' + atomsrc(hs()) + '(' + term(1) + ')')
            else:
                goals.append('(' + atomsrc(hs()) + ' -> ' + term(0) + ' = ' + term(0) + ' ; true)')
                names.add('=')
        clauses.append(head + (' :- ' + ', '.join(goals) if goals else '') + '.')
    return '\n'.join(clauses) + '\n', names, heads, vars_, mk[0], hostile_head


import re as _re
INTERNAL_NAME = _re.compile(r'(arg\d+|l\d+|x\d+|cutIf\d+|doBreak|_)\Z')


def name_allowed(n, srcvars, ctxkeys):
    """identifiers of generated code: engine API, generator-internal names, or a Prolog variable of the source
    (possibly with trailing underscores added by the reserved-name mangling)"""
    if n in ctxkeys or INTERNAL_NAME.match(n):
        return True
    return n in srcvars or n.rstrip('_') in srcvars or any(n.startswith(v) and set(n[len(v):]) <= {'_'} for v in srcvars)


def check_ast(code, names, heads, ctxkeys, c, srcvars=None):
    """the taint / whitelist rule on emitted code; returns (kind, detail) or None"""
    try:
        tree = ast.parse(code)
    except SyntaxError as e:
        return ('emitted_code_does_not_parse', {'error': str(e)[:200]})
    want = sorted('%s_%d' % h for h in heads)
    other = [type(n).__name__ for n in tree.body if not isinstance(n, ast.FunctionDef)]
    if other:
        return ('statement_outside_function_definitions', {'statements': other[:5]})
    got = sorted(n.name for n in tree.body)
    if got != want:
        return ('function_definitions_differ_from_heads', {'expected': want, 'got': got})
    api_callables = set(k for k in ctxkeys if k not in ('__builtins__', 'ATOM_NIL', 'True', 'False') and '_' not in k[-2:] or k in ('match_dynamic',))
    for f in tree.body:
        locals_ = set(a.arg for a in f.args.args)
        if f.args.vararg or f.args.kwarg or f.args.kwonlyargs or f.args.defaults or f.decorator_list or f.returns:
            return ('unexpected_function_signature', {'function': f.name})
        for n in ast.walk(f):
            if isinstance(n, ast.Name) and isinstance(n.ctx, ast.Store):
                locals_.add(n.id)
        for n in ast.walk(f):
            c['ast_nodes_checked'] = c.get('ast_nodes_checked', 0) + 1
            if not isinstance(n, ALLOWED_NODES):
                return ('ast_node_outside_whitelist', {'node': type(n).__name__, 'function': f.name})
            if isinstance(n, ast.Call):
                if not isinstance(n.func, ast.Name) or n.keywords:
                    return ('call_target_is_not_a_plain_name', {'function': f.name, 'target': ast.dump(n.func)[:100]})
                if n.func.id not in ('variable', 'atom', 'functor', 'functor1', 'functor2', 'functor3', 'listpair', 'makelist', 'unify', 'query', 'match_dynamic'):
                    return ('call_of_non_api_name', {'function': f.name, 'name': n.func.id})
                if n.func.id in locals_:
                    return ('api_name_shadowed_by_local', {'function': f.name, 'name': n.func.id})
            elif isinstance(n, ast.Name):
                if srcvars is not None and not name_allowed(n.id, srcvars, ctxkeys):
                    return ('identifier_not_from_a_source_variable', {'function': f.name, 'name': n.id[:60]})
                if isinstance(n.ctx, ast.Load):
                    if n.id not in locals_ and n.id not in ctxkeys:
                        return ('name_loaded_is_neither_local_nor_api', {'function': f.name, 'name': n.id})
                else:
                    if n.id in ctxkeys:
                        return ('local_variable_captures_api_name', {'function': f.name, 'name': n.id})
            elif isinstance(n, ast.arg):
                if n.arg in ctxkeys:
                    return ('local_variable_captures_api_name', {'function': f.name, 'name': n.arg})
            elif isinstance(n, ast.Constant):
                if isinstance(n.value, str):
                    c['string_constants_checked'] = c.get('string_constants_checked', 0) + 1
                    if n.value not in names:
                        return ('string_constant_is_not_a_source_name', {'function': f.name, 'value': n.value[:80]})
                    if n.value.startswith('MK'):
                        c['hostile_strings_emitted'] = c.get('hostile_strings_emitted', 0) + 1
                elif not isinstance(n.value, (int, bool)):
                    return ('constant_of_unexpected_type', {'function': f.name, 'type': type(n.value).__name__})
    return None


def code_objects(co, acc):
    acc.append(co)
    for k in co.co_consts:
        if isinstance(k, types.CodeType):
            code_objects(k, acc)
    return acc


def run_case(ctx, seed, idx, tier):
    rng = random.Random((seed * 1000003 + idx) * 7 + 12)
    real = ctx['real']
    E = real.E
    c = {}
    r = rng.random()
    if r < 0.62:
        return case_program(ctx, rng, c)
    if r < 0.85:
        return case_queries(ctx, rng, c)
    return case_rename(ctx, rng, c)


def case_program(ctx, rng, c):
    real = ctx['real']
    E = real.E
    src, names, heads, vars_, nh, hostile_head = gen_hostile(rng)
    w = {'src': src}

    def viol(kind, detail):
        return {'c': c, 'nt': True, 'key': src, 'v': {'kind': kind, 'detail': detail, 'witness': w}}
    try:
        code = real.compile(src)
    except Exception as e:
        c['compiler_rejected'] = 1
        if hostile_head:
            c['hostile_heads_rejected'] = 1
        return {'c': c, 'nt': False, 'key': None}
    c['programs_compiled'] = 1
    yp = real.engine()
    ctxkeys = set(yp.eval_context.keys())
    for hname, ar in heads:
        names.add(hname)
    v = check_ast(code, names, heads, ctxkeys, c, set(vars_))
    if v:
        return viol(v[0], v[1])
    # with every debug option on, the compiler writes traces of the source text into the same stream as the
    # code: they must stay comments (the stream followed by the code parses to the same tree as the code alone)
    import io

    class DCtx:
        debug_filename = True
        debug_parser = True
        debug_generator = True
        current_source_file = 'hostile\rATTACK = 1.prolog'
        outf = io.StringIO()
    try:
        if rng.random() < 0.65:
            raise KeyError('skip')          # the debug-stream monitor runs on a third of the programs (it is slow)
        dcode = real.Cm.compile_prolog_from_string(src, DCtx)
        full = DCtx.outf.getvalue() + dcode
        try:
            same = ast.dump(ast.parse(full)) == ast.dump(ast.parse(code))
        except (SyntaxError, ValueError) as e:
            return viol('debug_output_breaks_the_generated_code', {'error': str(e)[:160]})
        if not same:
            return viol('debug_output_adds_code', {'stream_lines': full.count(chr(10))})
        c['debug_streams_checked'] = c.get('debug_streams_checked', 0) + 1
        # the same output written to a file (as yldpc -o does) and loaded with load_script_from_file must behave
        # like the text loaded from a string: same definitions, nothing executed at load time
        import os
        import tempfile
        for variant, body in (('debug_generator_only', None), ('all_debug', full)):
            if body is None:
                class GCtx(DCtx):
                    debug_filename = False
                    debug_parser = False
                    outf = io.StringIO()
                body = GCtx.outf.getvalue() if False else None
                gcode = real.Cm.compile_prolog_from_string(src, GCtx)
                body = GCtx.outf.getvalue() + gcode
            fd, path = tempfile.mkstemp(prefix='ypv-c12-', suffix='.py')
            try:
                with os.fdopen(fd, 'w', encoding='utf8', newline='') as f:
                    f.write(body)
                ypf = real.engine()
                before_keys = set(ypf.eval_context)
                ctx['audit'].window()
                ctx['calls'].start()
                try:
                    try:
                        ypf.load_script_from_file(path)
                    finally:
                        seen_f = ctx['calls'].stop()
                        ev_f = ctx['audit'].close()
                except Exception as e:
                    return viol('file_with_debug_output_does_not_load', {'variant': variant, 'error': type(e).__name__ + ': ' + str(e)[:160]})
                added = sorted(set(ypf.eval_context) - before_keys)
                want_keys = sorted('%s_%d' % h for h in heads)
                if added != want_keys:
                    return viol('file_load_defines_other_names', {'variant': variant, 'expected': want_keys, 'got': added})
                if seen_f:
                    return viol('calls_executed_while_loading_file', {'variant': variant, 'callables': [repr(x)[:60] for x in seen_f[:3]]})
                c['file_loads_checked'] = c.get('file_loads_checked', 0) + 1
            finally:
                try:
                    os.unlink(path)
                except OSError:
                    pass
    except KeyError:
        pass
    except Exception as e:
        return viol('compile_with_debug_options_raises', {'error': type(e).__name__ + ': ' + str(e)[:160]})
    # execution monitor: load
    api = [val for k, val in yp.eval_context.items() if callable(val)]
    aud, calls = ctx['audit'], ctx['calls']
    aud.window()
    calls.start()
    try:
        try:
            yp.load_script_from_string(code, SCRIPT_FN)
        finally:
            seen = calls.stop()
            events = aud.close()
    except Exception as e:
        return viol('load_raises', {'error': type(e).__name__ + ': ' + str(e)[:160]})
    c['loads_audited'] = 1
    extra = [e for e in events if e not in ('compile', 'exec')]
    if extra or events.count('exec') > 1 or events.count('compile') > 1:
        return viol('audit_events_during_load', {'events': events[:10]})
    if seen:
        return viol('calls_executed_at_load_time', {'callables': [repr(x)[:60] for x in seen[:5]]})
    defined = set('%s_%d' % h for h in heads)
    for k in defined:
        f = yp.eval_context.get(k)
        if f is None:
            return viol('defined_predicate_missing_after_load', {'key': k})
        g = f.__globals__
        b = g.get('__builtins__')
        if not isinstance(b, dict) or len(b) != 0:
            return viol('loaded_code_can_reach_python_builtins', {'function': k, 'builtins': type(b).__name__,
                                                                  'entries': len(b) if hasattr(b, '__len__') else None})
        foreign = [n for n in g if n not in ctxkeys and n not in defined]
        if foreign:
            return viol('loaded_code_globals_contain_foreign_names', {'function': k, 'names': foreign[:5]})
        for co in code_objects(f.__code__, []):
            bad = [n for n in co.co_names if n not in ctxkeys and n not in defined]
            if bad:
                return viol('code_object_references_foreign_names', {'function': k, 'names': bad[:5]})
    # execution monitor: run every defined predicate
    for hname, ar in sorted(heads):
        if hname in yp.eval_blacklist:
            continue
        vs = [yp.variable() for _ in range(ar)]
        aud.window()
        calls.start()
        real.clock.start(200000)
        err = None
        try:
            try:
                n = 0
                for _ in yp.query(hname, vs):
                    n += 1
                    if n >= 3:
                        break
            finally:
                real.clock.stop()
                seen = calls.stop()
                events = aud.close()
        except StepBudget:
            pass
        except RecursionError:
            pass
        except Exception as e:
            err = type(e).__name__ + ': ' + str(e)[:120]
        if err:
            return viol('hostile_program_raises_at_run_time', {'predicate': '%s/%d' % (hname, ar), 'error': err})
        if events:
            return viol('audit_events_during_query', {'events': events[:10], 'predicate': hname})
        for cb in seen:
            c['call_events_checked'] = c.get('call_events_checked', 0) + 1
            if not any(cb == a for a in api):
                return viol('script_code_called_something_outside_the_api', {'callable': repr(cb)[:100], 'predicate': hname})
    nt = nh >= 3
    r = {'c': c, 'nt': nt, 'key': src}
    if nt:
        r['sample'] = {'program': src[:300]}
    return r


def case_queries(ctx, rng, c):
    """hostile run-time queries against an engine with a small benign program and facts"""
    real = ctx['real']
    E = real.E
    src = 'p(a).\np(b).\nx(1).\nfoo(X) :- p(X).\nq :- p(_).\n'
    yp = real.engine(real.compile(src))
    yp.assert_fact(yp.atom('fact'), [yp.atom('f1')])
    model = {('p', 1): 2, ('x', 1): 1, ('foo', 1): 2, ('q', 0): 2, ('fact', 1): 1}
    spied = []
    for k in list(yp.eval_blacklist):
        val = yp.eval_context.get(k)
        if callable(val) and '_' not in k[-2:]:
            def mk(k=k, val=val):
                def spy(*a, **kw):
                    spied.append(k)
                    return val(*a, **kw)
                return spy
            yp.eval_context[k] = mk()
    names = ['eval', 'exec', '__import__', 'compile', 'open', 'getattr', 'print', 'globals', 'x_1', 'p_n', 'p_1', 'foo_1', 'q_0',
             'p\n', 'p\nimport os', '', '_', '__builtins__', 'os.system', 'self', 'yp', 'query_2', 'atom_1', 'unify_2',
             'variable_0', 'match_dynamic_2', 'functor_2', 'call_n', '=_2', 'findall_3'] + list(yp.eval_blacklist)
    aud = ctx['audit']
    w = {'src': src}
    for _ in range(40):
        name = rng.choice(names)
        ar = rng.choice([0, 1, 2, 3])
        args = [rng.choice([yp.atom('a'), yp.variable(), 1, yp.atom('__import__'), yp.functor('f', [yp.atom('b')])]) for _ in range(ar)]
        aud.window()
        err = None
        n = 0
        real.clock.start(100000)
        try:
            try:
                for _ in yp.query(name, args):
                    n += 1
                    if n > 5:
                        break
            finally:
                real.clock.stop()
                events = aud.close()
        except Exception as e:
            err = type(e).__name__ + ': ' + str(e)[:100]
        c['hostile_queries'] = c.get('hostile_queries', 0) + 1
        q = {'name': name, 'arity': ar}
        if err:
            return {'c': c, 'nt': True, 'key': None, 'v': {'kind': 'hostile_query_raises', 'detail': {'query': q, 'error': err}, 'witness': dict(w, query=q)}}
        if n and (name, ar) not in model:
            return {'c': c, 'nt': True, 'key': None, 'v': {'kind': 'hostile_query_has_answers', 'detail': {'query': q, 'answers': n}, 'witness': dict(w, query=q)}}
        if events:
            return {'c': c, 'nt': True, 'key': None, 'v': {'kind': 'audit_events_during_hostile_query', 'detail': {'query': q, 'events': events[:8]}, 'witness': dict(w, query=q)}}
        if spied:
            return {'c': c, 'nt': True, 'key': None, 'v': {'kind': 'api_function_invoked_as_predicate', 'detail': {'query': q, 'api': spied[:3]}, 'witness': dict(w, query=q)}}
    return {'c': c, 'nt': False, 'key': None}


def rename_vars(t, m):
    if t[0] == 'v':
        return V(m.get(t[1], t[1]))
    if t[0] == 'c':
        return ('c', t[1], tuple(rename_vars(a, m) for a in t[2]))
    return t


def rename_body(b, m):
    if b[0] == 'call':
        return ('call', rename_vars(b[1], m))
    if b[0] in ('true', 'fail', 'cut'):
        return b
    if b[0] == 'not':
        return ('not', rename_body(b[1], m))
    return (b[0], rename_body(b[1], m), rename_body(b[2], m))


def case_rename(ctx, rng, c):
    """metamorphic: renaming clause variables to hostile names must not change any answer"""
    real = ctx['real']
    from ..terms import rprogram
    if rng.random() < 0.5:
        clauses, preds = gen.gen_prog_stratified(rng)
        qn, qa = rng.choice(preds)
        qargs = gen.gen_query_args(rng, qa, [V('Q0'), V('Q1'), V('Q2')])
    else:
        clauses, qn, na = gen.gen_control_case(rng)
        qargs = [V('Q%d' % i) for i in range(na)]
    renamed = []
    for h, b in clauses:
        vs = [v[1] for v in term_vars(h)]
        from .c18 import _vars
        allv = []
        for v in _vars(h, b):
            if v[1] != '_' and v[1] not in allv:
                allv.append(v[1])
        pool = [n for n in HOSTILE_VARS if n != '_']
        rng.shuffle(pool)
        m = {v: pool[i] for i, v in enumerate(allv) if i < len(pool)}
        renamed.append((rename_vars(h, m), rename_body(b, m)))
    src1, src2 = rprogram(clauses), rprogram(renamed)
    out = []
    for src in (src1, src2):
        res = diff.run_engine_query(real, src, qn, qargs, list(qargs), 40, 3000000)
        out.append(res[:2] if res[0] != 'compile' else res)
    c['renamings_compared'] = 1
    if out[0] != out[1]:
        if out[0][0] == 'compile' and 'too large' in str(out[0][2]):
            return {'c': c, 'nt': False, 'key': None, 'discard': 'too_large'}
        return {'c': c, 'nt': True, 'key': src2,
                'v': {'kind': 'renaming_variables_changes_behaviour', 'detail': {'original': str(out[0])[:300], 'renamed': str(out[1])[:300]},
                      'witness': {'src': src2, 'original_src': src1, 'query': '%s(%s)' % (qn, ','.join(rterm(a) for a in qargs))}}}
    return {'c': c, 'nt': False, 'key': None}


def corpus():
    return [{'src': s} for s in [
        "'x(): pass\nimport os\ndef y'(a).\n",                       # F11: injected statements at load
        "t(ATOM_NIL, L) :- L = [], ATOM_NIL = a.\n",                     # F10: capture of an engine name
        "p('\\'); import os; (\\'').\n", "p('a\nimport os\n').\n", "p(X) :- 'q\n'(X), X = '\"\"\"'.\n",
        "p(__builtins__, True) :- __builtins__ = True.\n",
        "q.\np :- '$CUTIF'('zz = 1; yy'), q.\n",                       # F20: the generator's internal marker written by the user
        "q.\np :- q, '$CUTIF'('query = None; x').\n",
    ]]


def run_corpus(ctx, item):
    """pinned witnesses: compile (or rejection), AST rule, audited load"""
    real = ctx['real']
    c = {}
    src = item['src']
    w = {'src': src}
    try:
        code = real.compile(src)
    except Exception:
        return {'c': {'compiler_rejected': 1}, 'nt': False, 'key': None}
    from .. import recog
    an = recog.analyse(src)
    heads = set(h for h in (an.get('heads') or []) if h and h != ('?',))
    yp = real.engine()
    tree_names = set()
    try:
        for n in ast.walk(ast.parse(code)):
            if isinstance(n, ast.Constant) and isinstance(n.value, str):
                tree_names.add(n.value)
    except SyntaxError:
        pass
    # for pinned witnesses the set of legal names is taken from the recogniser's tokens
    toks = recog.lex(src)
    names = set()
    for k, t in toks:
        if k == 'STRING':
            names.add(recog.unquote(t))
        elif k in ('ATOM', 'BINOP', 'UNOP'):
            names.add(t)
    srcvars = set(t for k, t in toks if k == 'VARIABLE')
    v = check_ast(code, names, heads, set(yp.eval_context.keys()), c, srcvars)
    if v:
        return {'c': c, 'nt': True, 'key': src, 'v': {'kind': v[0], 'detail': v[1], 'witness': w}}
    aud = ctx['audit']
    aud.window()
    try:
        yp.load_script_from_string(code, SCRIPT_FN)
    except Exception as e:
        aud.close()
        return {'c': c, 'nt': True, 'key': src, 'v': {'kind': 'load_raises', 'detail': str(e)[:100], 'witness': w}}
    events = aud.close()
    if [e for e in events if e not in ('compile', 'exec')]:
        return {'c': c, 'nt': True, 'key': src, 'v': {'kind': 'audit_events_during_load', 'detail': {'events': events}, 'witness': w}}
    # F10 witness: L = [] must still mean the empty list
    if 'ATOM_NIL' in src:
        X, Y = yp.variable(), yp.variable()
        got = [snap_real(real.E, [X, Y]) for _ in yp.query('t', [X, Y])]
        if got != [(('a', 'a'), ('a', '[]'))]:
            return {'c': c, 'nt': True, 'key': src, 'v': {'kind': 'variable_captured_engine_name', 'detail': {'got': got}, 'witness': w}}
    return {'c': c, 'nt': True, 'key': src}


def replay(ctx, w):
    return run_corpus(ctx, {'src': w['src']})
