"""C20 - Python predicates are interchangeable with compiled ones."""
import random
from .. import gen, diff
from ..real import Real
from ..terms import V, A, C, L, NIL, I, canon, snap_real, build_real, rprogram, rterm, anonymise
from ..observe import SCRIPT_FN, StepBudget
from ..gen import uniq_clauses, uniq_anon
from . import c09

PROPERTY = 'C20'
LEVEL = 'exploration'
RULE = ('programs from the stratified / control-body (cut, if-then-else, negation) / meta-call generators; a '
        'random non-empty subset of their fact predicates is re-implemented as registered Python generator '
        'functions in the documented style (nested `for _ in unify(arg, term): yield`), with fresh variables '
        'per call, registered with inferred, explicit or variadic arity (before or after loading the script), '
        'yielding True or False at random, optionally next to dynamic facts asserted for the same predicate. '
        'Observed: answer sequence of the mixed engine vs. the all-compiled engine vs. refA = refB; the '
        'argument snapshots every Python predicate receives, in call order, vs. the reference call trace; and, '
        'with a predicate raising at a random entry/resume, that the consumer catches the very same exception '
        'object after a prefix of the expected answers. Non-trivial = at least one Python predicate was invoked '
        'and the query has an answer; distinct = hash of (program, query, subset, styles)')
ASSUMPTIONS = ['reference interpreters A and B agree', 'only predicates all of whose clauses are facts are replaced',
               'call traces are compared on the common prefix when the enumeration is capped at 60 answers']
RULE_ADDED = (' Added after the rounds of independently written changes (DESIGN.md 12.2): ' +
              'every predicate registered again (the new closures must be called); builtin exception types; yield values True / False / None / 0 / 1; callables of every kind (decorated, partial, method, callable object ...) for inferred arity; Python predicates that delegate to a query on the same engine.')
RULE = RULE + RULE_ADDED


class Boom(Exception):
    pass


def plan(tier, seed):
    if tier == 'quick':
        return {'n': 12000, 'deadline': 150,
                'floor': {'callable_wrapped': 1, 'callable_partial': 1, 'callable_method': 1, 'distinct_nontrivial': 2000, 'python_predicate_calls': 20000, 'style_inferred': 1000,
                          'style_explicit': 1000, 'style_variadic': 1000, 'exception_identity_checked': 500,
                          'next_to_dynamic_facts': 500, 'trace_compared': 3000}}
    return {'n': 300000, 'deadline': 560,
            'floor': {'callable_wrapped': 1, 'callable_partial': 1, 'callable_method': 1, 'distinct_nontrivial': 40000, 'python_predicate_calls': 400000, 'style_inferred': 20000,
                      'style_explicit': 20000, 'style_variadic': 20000, 'exception_identity_checked': 10000,
                      'next_to_dynamic_facts': 10000, 'trace_compared': 60000}}


def setup(tier, seed):
    return {'real': Real()}


def fact_preds(clauses):
    by = {}
    for h, b in clauses:
        k = (h[1], len(h[2]) if h[0] == 'c' else 0)
        by.setdefault(k, []).append((h, b))
    return {k: [h for h, b in cl] for k, cl in by.items() if all(b == ('true',) for h, b in cl)}


def gen_program(rng):
    r = rng.random()
    qv = [V('Q0'), V('Q1'), V('Q2')]
    if r < 0.3:
        clauses, preds = gen.gen_prog_stratified(rng)
        qn, qa = rng.choice(preds)
        return clauses, qn, gen.gen_query_args(rng, qa, qv)
    if r < 0.75:
        clauses, qn, na = gen.gen_control_case(rng, allow_cut_p=0.7, maxdepth=3)
        return clauses, qn, [V('Q%d' % i) for i in range(na)]
    clauses, goals, vars_, c = c09.gen_case(rng)
    return clauses, 't', [V('Q%d' % i) for i in range(len(vars_))]


_HIDDEN = [0]


def make_pypred(real, yp, name, arity, rows, style, yv, log, fault):
    E = real.E
    unify = E.unify

    # some predicates do not unify themselves but delegate to a query on the same engine (re-entrant use of the
    # engine from inside a Python predicate): the rows live as facts under a name the program does not know
    delegate = (fault.get('kind_seed', 0) + len(rows) + arity) % 4 == 0
    method_style = (fault.get('kind_seed', 0) + len(name) + arity) % 3 == 0
    if method_style:
        fault.setdefault('kinds', {})['unify_method_style'] = fault.setdefault('kinds', {}).get('unify_method_style', 0) + 1
    _HIDDEN[0] += 1
    hidden = 'ypv_hidden_%s_%d_%d' % (name, arity, _HIDDEN[0])     # (a new name per registration)
    if delegate:
        log_kinds0 = fault.setdefault('kinds', {})
        log_kinds0['delegating'] = log_kinds0.get('delegating', 0) + 1
        for row in rows:
            vmap0 = {}
            yp.assert_fact(yp.atom(hidden), [build_real(yp, t, vmap0) for t in row])

    def body(args):
        log.append((name, snap_real(E, list(args))))
        fault['events'] += 1
        if fault['events'] == fault['at']:
            raise fault['exc']
        if delegate:
            for _ in yp.query(hidden, list(args)):
                yield yv
                fault['events'] += 1
                if fault['events'] == fault['at']:
                    raise fault['exc']
            return
        for row in rows:
            vmap = {}
            terms = [build_real(yp, t, vmap) for t in row]

            def rec(i):
                if i == len(terms):
                    yield None
                    return
                # the documented function unify(a, b), or the method of the term interface a.unify(b) - on whatever
                # the argument is at that moment (a variable an earlier goal has bound, an atom, a structure)
                if method_style and isinstance(args[i], E.IUnifiable):
                    it = args[i].unify(terms[i])
                else:
                    it = unify(args[i], terms[i])
                for _ in it:
                    yield from rec(i + 1)
            for _ in rec(0):
                yield yv
                fault['events'] += 1
                if fault['events'] == fault['at']:
                    raise fault['exc']
    if style == 'variadic':
        def f(*args):
            if len(args) != arity:
                return
            yield from body(args)
        return f, -1
    if style == 'explicit':
        # a generic table-driven closure registered with an explicit arity (its signature says nothing)
        def g(*args):
            yield from body(args)
        return g, arity
    # fixed signature with `arity` positional parameters; the kind of callable varies (plain function, decorated
    # with functools.wraps, partial, bound method, callable object, ...): all of them have `arity` arguments
    from ..callables import KINDS, variant
    kind = KINDS[(fault.get('kind_seed', 0) + arity + len(name)) % len(KINDS)]
    log_kinds = fault.setdefault('kinds', {})
    log_kinds[kind] = log_kinds.get(kind, 0) + 1
    return variant(body, arity, kind), (None if style == 'inferred' else arity)


def run_case(ctx, seed, idx, tier):
    rng = random.Random((seed * 1000003 + idx) * 7 + 20)
    real = ctx['real']
    E = real.E
    clauses, qname, qargs = gen_program(rng)
    fp = fact_preds(clauses)
    fp = {k: v for k, v in fp.items() if k[0] not in (qname,)}
    c = {}
    if not fp:
        return {'c': c, 'nt': False, 'key': None, 'discard': 'no_fact_predicate'}
    keys = sorted(fp)
    subset = [k for k in keys if rng.random() < 0.5] or [rng.choice(keys)]
    styles = {k: rng.choice(['inferred', 'explicit', 'variadic']) for k in subset}
    # a name has ONE variadic slot: when a predicate name occurs with several arities, at most one of them is
    # registered variadically (a second variadic registration of the name would replace the first one); the other
    # arities of that name stay compiled or get their own fixed-arity function
    seen_variadic = set()
    for k in subset:
        if styles[k] == 'variadic':
            if k[0] in seen_variadic:
                styles[k] = 'explicit'
            seen_variadic.add(k[0])
    # the yielded value is irrelevant: True, False, and what a bare `yield` gives
    yvs = {k: rng.choice([True, False, False, None, 0, 1]) for k in subset}
    order = rng.choice(['register_first', 'load_first_full', 'load_first_stripped'])
    if order == 'load_first_full':
        # a variadic registration is only used when no definition for the exact arity exists:
        # next to the compiled definition it would (correctly) never be called
        styles = {k: (st if st != 'variadic' else 'explicit') for k, st in styles.items()}
    dyn = []
    if rng.random() < 0.2:
        k = rng.choice(subset)
        for _ in range(rng.choice([1, 2])):
            h = rng.choice(fp[k])
            dyn.append((k, uniq_anon(h, [100])))
    # expected: reference on the all-compiled program (+ dynamic facts), trace from the model with rows
    observed = list(qargs)
    ucl = uniq_clauses(clauses)
    ufp = fact_preds(ucl)

    def preA(r):
        for k in subset:
            rows = [tuple(h[2]) if h[0] == 'c' else () for h in ufp[k]]
            r.register(k[0], k[1], rows)
        for k, h in dyn:
            r.assert_(h, {})

    def preB(db):
        for k in subset:
            rows = [tuple(h[2]) if h[0] == 'c' else () for h in ufp[k]]
            db.register(k[0], k[1], rows)
        for k, h in dyn:
            key = (h[1], len(h[2]) if h[0] == 'c' else 0)
            db.facts[key] = db.facts.get(key, []) + [(next(db.ids), h)]
    exp = diff.reference([(ucl, True)], qname, qargs, observed, preA=preA, preB=preB)
    if 'discard' in exp:
        r = {'c': c, 'nt': False, 'key': None, 'discard': exp['discard']}
        if exp['discard'] == 'oracle_disagreement':
            c['oracle_disagreement'] = 1
        return r
    refa = exp['refA']
    if 'findall_nonground' in refa.flags:
        return {'c': c, 'nt': False, 'key': None, 'discard': 'findall_nonground'}
    src_full = rprogram(clauses)
    stripped = [cl for cl in clauses if (cl[0][1], len(cl[0][2]) if cl[0][0] == 'c' else 0) not in subset]
    src_stripped = rprogram(stripped)
    witness = {'src': src_full, 'query': '%s(%s)' % (qname, ','.join(rterm(a) for a in qargs)),
               'python_predicates': [[k[0], k[1], styles[k], yvs[k]] for k in subset], 'order': order,
               'dynamic_facts': dyn}
    key = (src_full, witness['query'], witness['python_predicates'], order, dyn)

    def viol(kind, detail):
        return {'c': c, 'nt': True, 'key': key, 'v': {'kind': kind, 'detail': detail, 'witness': witness}}
    # (a) all compiled
    try:
        code_full = real.compile(src_full)
        code_stripped = real.compile(src_stripped)
    except Exception as e:
        if 'too large' in str(e):
            return {'c': c, 'nt': False, 'key': None, 'discard': 'clause_too_large'}
        return viol('compile:' + type(e).__name__, str(e)[:200])

    def mk_engine(mixed, fault, log):
        yp = real.engine()
        regs = []
        if mixed:
            for k in subset:
                rows = [tuple(h[2]) if h[0] == 'c' else () for h in fp[k]]
                f, ar = make_pypred(real, yp, k[0], k[1], rows, styles[k], yvs[k], log, fault)
                regs.append((k[0], f, ar))
        if mixed and order == 'register_first':
            for name, f, ar in regs:
                yp.register_function(name, f, arity=ar) if ar is not None else yp.register_function(name, f)
            yp.load_script_from_string(code_stripped, SCRIPT_FN)
        else:
            yp.load_script_from_string(code_stripped if (mixed and order == 'load_first_stripped') else code_full, SCRIPT_FN)
            for name, f, ar in regs:
                yp.register_function(name, f, arity=ar) if ar is not None else yp.register_function(name, f)
        for k, h in dyn:
            fv = {}
            args = [build_real(yp, a, fv) for a in (h[2] if h[0] == 'c' else ())]
            yp.assert_fact(yp.atom(h[1]), args)
        return yp

    def run(mixed, fault, log):
        yp = mk_engine(mixed, fault, log)
        vmap = {}
        rargs = [build_real(yp, t, vmap) for t in qargs]
        robs = [build_real(yp, t, vmap) for t in observed]
        return real.answers(yp.query(qname, rargs), robs, diff.MAXANS, diff.engine_bound(refa.steps))
    nofault = {'events': 0, 'at': None, 'exc': None, 'kind_seed': rng.randrange(9)}
    got_a, st_a, _ = run(False, dict(nofault), [])
    d = diff.compare(exp, got_a, st_a, exp)
    if d and d[0] == 'discard':
        return {'c': c, 'nt': False, 'key': None, 'discard': d[1]}
    if d:
        return viol('all_compiled_differs_from_reference:' + d[0], d[1])
    log = []
    fault = dict(nofault)
    got_b, st_b, _ = run(True, fault, log)
    d = diff.compare(exp, got_b, st_b, exp)
    if d and d[0] == 'discard':
        return {'c': c, 'nt': False, 'key': None, 'discard': d[1]}
    if d:
        return viol('mixed_engine_differs:' + d[0], d[1])
    c['python_predicate_calls'] = len(log)
    for kd, nk in fault.get('kinds', {}).items():
        c['callable_' + kd] = c.get('callable_' + kd, 0) + nk
    for k in subset:
        c['style_' + styles[k]] = c.get('style_' + styles[k], 0) + 1
    c['order_' + order] = 1
    if dyn:
        c['next_to_dynamic_facts'] = 1
    # arguments received, in call order
    trace = [(n, a) for n, a in refa.trace]
    n = min(len(trace), len(log)) if not exp['complete'] else max(len(trace), len(log))
    if log[:n] != trace[:n]:
        i = 0
        while i < min(len(log), len(trace)) and log[i] == trace[i]:
            i += 1
        return viol('arguments_received_differ', {'index': i, 'expected': trace[i:i + 1], 'got': log[i:i + 1],
                                                  'n_expected': len(trace), 'n_got': len(log)})
    c['trace_compared'] = 1 if log else 0
    # the same engine, every Python predicate registered again (fresh closures, same solutions): the new
    # registrations must be the ones that are called from now on
    if log and rng.random() < 0.4:
        log1, log2 = [], []
        f0 = dict(nofault)
        yp = mk_engine(True, f0, log1)
        vmap = {}
        rargs = [build_real(yp, t, vmap) for t in qargs]
        robs = [build_real(yp, t, vmap) for t in observed]
        g1, s1, _ = real.answers(yp.query(qname, rargs), robs, diff.MAXANS, diff.engine_bound(refa.steps))
        for k in subset:
            rows = [tuple(h[2]) if h[0] == 'c' else () for h in fp[k]]
            f, ar = make_pypred(real, yp, k[0], k[1], rows, styles[k], rng.choice([True, False, None]), log2, f0)
            yp.register_function(k[0], f, arity=ar) if ar is not None else yp.register_function(k[0], f)
        g2, s2, _ = real.answers(yp.query(qname, rargs), robs, diff.MAXANS, diff.engine_bound(refa.steps))
        if (g2, s2) != (g1, s1):
            return viol('answers_change_after_registering_again', diff.first_diff(g1, g2))
        n2 = min(len(trace), len(log2)) if not exp['complete'] else max(len(trace), len(log2))
        if log2[:n2] != trace[:n2]:
            return viol('old_registration_still_called_after_registering_again', {'expected_calls': len(trace), 'calls_to_new_functions': len(log2)})
        c['registered_again'] = 1
    # exception identity
    total = fault['events']
    if total and rng.random() < 0.5:
        # any exception type: the user's own classes and the builtin ones an ordinary bug produces
        exc = rng.choice([Boom, Boom, TypeError, ValueError, KeyError, IndexError, AttributeError, ZeroDivisionError, AssertionError,
                          OSError, RuntimeError, LookupError, NameError, UnicodeError])('x')
        c['exc_' + type(exc).__name__] = 1
        f2 = {'events': 0, 'at': rng.randrange(1, total + 1), 'exc': exc}
        yp = mk_engine(True, f2, [])
        vmap = {}
        rargs = [build_real(yp, t, vmap) for t in qargs]
        robs = [build_real(yp, t, vmap) for t in observed]
        got = []
        caught = None
        real.clock.start(diff.engine_bound(refa.steps))
        try:
            try:
                for _ in yp.query(qname, rargs):
                    got.append(snap_real(E, robs))
                    if len(got) >= diff.MAXANS:
                        break
            finally:
                real.clock.stop()
        except StepBudget:
            return viol('nontermination_with_raising_predicate', {'at': f2['at']})
        except Exception as e:
            if e is exc:
                caught = e
            else:
                return viol('exception_changed', {'raised': type(exc).__name__, 'caught': type(e).__name__ + ': ' + str(e)[:100], 'at': f2['at']})
        if f2['events'] >= f2['at']:
            if caught is None:
                return viol('exception_swallowed', {'at': f2['at'], 'answers': len(got)})
            if caught is not exc:
                return viol('exception_not_same_object', {'at': f2['at']})
            if got != exp['answers'][:len(got)]:
                return viol('answers_before_exception_differ', diff.first_diff(exp['answers'], got))
            c['exception_identity_checked'] = 1
    nt = bool(log) and len(exp['answers']) >= 1
    r = {'c': c, 'nt': nt, 'key': key}
    c['answers_compared'] = len(exp['answers'])
    if nt:
        r['sample'] = {'program': [l for l in src_full.split('\n') if ':-' in l][:3], 'query': witness['query'],
                       'python_predicates': witness['python_predicates'], 'order': order,
                       'python_calls': len(log), 'answers': len(exp['answers'])}
    return r


def replay(ctx, w):
    return {'v': None, 'info': 'replay by seed/index: rerun the tier with the same VERIF_SEED', 'witness': w}
