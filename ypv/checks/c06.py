"""C06 - disjunction, if-then-else and negation follow standard semantics."""
import random
from .. import gen
from ..real import Real
from ..terms import V, A, C
from . import control
from .common import diff_replay

PROPERTY = 'C06'
LEVEL = 'exploration'
RULE = ('random body expression trees (depth <= 4) over leaf predicates with 0/1/2/3 solutions, true, '
        'fail, ! and , ; -> (with and without else) \\+, with continuation goals after each construct, '
        'rendered with minimal parentheses (so precedence/associativity of the grammar is decided) or '
        'fully parenthesised, random layout/comments; called from top/N with its own alternatives. '
        'Every leaf call binds a fresh head variable, so an answer identifies the path and shows that '
        '\\+ bound nothing. Non-trivial = the reference committed an if-then-else or evaluated \\+ on a '
        'goal with a solution; distinct = hash of program text. Every source-reachable rewrite case of '
        'the code generator must have been exercised (labels counted from its own debug output)')
ASSUMPTIONS = ['reference interpreters A and B agree', 'cut inside conditions / under \\+ not generated',
               'clauses needing more than 20 nested Python blocks are discarded (compiler reports them)']
RULE_ADDED = (' Added after the rounds of independently written changes (DESIGN.md 12.2): ' +
              '4-12 further control clauses batched into one compilation unit; else-if chains; clause-local variables aliased to head variables; the queried predicate name at other arities.')
RULE = RULE + RULE_ADDED

REQUIRED_LABELS = [
    '$CUTIF, A', 'A,B', '(!,A) => A [yieldBreak]', '((\\+ A),B) =>  (A -> fail ; true),B',
    '(A,B),C => A,(B,C)', '(A -> T ; B ), C  =>  A -> (T,C) ; B, C', '( A ; B ) , C   =>  A,C ; B,C',
    '(A -> T), B  =>  (A -> T ; fail), B', 'true , A => A', 'fail , _', 'A -> T ; B  => breakableBlock( ... )',
    'A ; B', '[A  =>  A, true]  A -> T => (A -> T), true', '[A  =>  A, true]  A => A, true',
    '[A  =>  A, true]  (\\+ A) => (\\+ A), true', '[A  =>  A, true]  fail => fail, true', 'true', '!',
]


def _lab(l):
    return 'case:' + l.strip()[:40]


def plan(tier, seed):
    floor = {_lab(l): 1 for l in REQUIRED_LABELS}
    if tier == 'quick':
        floor.update({'distinct_nontrivial': 1500, 'commits': 5000})
        return {'n': 10000, 'deadline': 150, 'floor': floor}
    floor.update({'distinct_nontrivial': 40000, 'commits': 100000})
    return {'n': 400000, 'deadline': 560, 'floor': floor}


def setup(tier, seed):
    return {'real': Real(), 'labels': set()}


def finish(ctx):
    return {_lab(l): 1 for l in ctx['labels']}


def _nt(refa, exp):
    return refa.commits > 0


def corpus():
    o, m, z = (lambda v: ('call', C('o', V(v)))), (lambda v: ('call', C('m', V(v)))), (lambda v: ('call', C('z', V(v))))
    return [
        {'bodies': [('or', m('V1'), m('V1'))], 'nv': 1},
        {'bodies': [('and', ('or', ('then', m('V1'), m('V2')), o('V2')), m('V3'))], 'nv': 3},
        {'bodies': [('or', ('then', z('V1'), m('V2')), m('V2'))], 'nv': 2},
        {'bodies': [('and', ('then', z('V1'), o('V2')), o('V2')), o('V2')], 'nv': 2},
        {'bodies': [('and', ('not', m('V1')), o('V2')), ('and', ('not', z('V1')), m('V2'))], 'nv': 2},
        # precedence: a , b -> c ; d   reads as  ((a,b) -> c) ; d
        {'bodies': [('or', ('then', ('and', o('V1'), m('V2')), m('V3')), o('V3'))], 'nv': 3},
        # right associativity of ; and ->
        {'bodies': [('or', m('V1'), ('or', o('V1'), m('V1')))], 'nv': 1},
        {'bodies': [('then', o('V1'), ('then', m('V2'), m('V3')))], 'nv': 3},
        {'bodies': [('or', ('then', o('V1'), ('or', ('then', z('V2'), o('V3')), m('V3'))), o('V3'))], 'nv': 3},
    ]


def run_corpus(ctx, item):
    clauses, qn, na = control.wrap_body(item['bodies'], item['nv'])
    return control.run_control(ctx, clauses, qn, na, None, {}, _nt, want_cases=True)


def run_case(ctx, seed, idx, tier):
    rng = random.Random((seed * 1000003 + idx) * 7 + 6)
    w = rng.choice([
        {'and': 0.30, 'or': 0.22, 'ite': 0.22, 'then': 0.12, 'not': 0.14},
        {'and': 0.40, 'or': 0.20, 'ite': 0.18, 'then': 0.10, 'not': 0.12},
        {'and': 0.20, 'or': 0.20, 'ite': 0.35, 'then': 0.10, 'not': 0.15},
    ])
    if rng.random() < 0.06:
        # long bodies: a disjunction in front of 8-18 further goals, control constructs (with cuts in their branches)
        # among them
        from . import c05
        return c05.long_body_case(ctx, rng, _nt)
    clauses, qn, na = gen.gen_control_case(rng, weights=w, allow_cut_p=0.4)
    c = {'random_bodies': 1}
    if rng.random() < 0.15:
        # many control clauses in ONE compilation unit (labels / counters of the code generator run past 9),
        # the queried predicate somewhere among them
        others = []
        for k in range(rng.choice([4, 8, 12])):
            ocl, _, _ = gen.gen_control_case(rng, weights=w, allow_cut_p=0.3, maxdepth=3)
            ren = 't%d' % k
            for h, b in ocl:
                if h[1] == 't':
                    others.append((('c', ren, h[2]) if h[0] == 'c' else ('a', ren), b))
        facts = [cl for cl in clauses if cl[0][1] not in ('t', 'top')]
        mine = [cl for cl in clauses if cl[0][1] in ('t', 'top')]
        pos = rng.randrange(len(others) + 1)
        clauses = facts + others[:pos] + mine + others[pos:]
        c['batched_programs'] = 1
    minimal = rng.random() < 0.85
    c['minimal_parentheses' if minimal else 'full_parentheses'] = 1
    return control.run_control(ctx, clauses, qn, na, rng, c, _nt, minimal=minimal,
                               want_cases=(idx % 5 == 0))


def replay(ctx, w):
    return diff_replay(ctx['real'], w)
