"""C13 - a stored fact is an independent copy of the asserted term."""
import random
from .. import history as H
from .. import gen
from ..real import Real
from ..terms import V, A, C, I, L, NIL, rterm, term_vars, is_ground
from .c14 import short, fix_history

PROPERTY = 'C13'
LEVEL = 'exploration'
RULE = ('histories "build a term with variables -> bind some of them before the assertion (directly, through a '
        'variable chain, inside a structure) -> assert (assertz/asserta, inline or goal in a variable, through '
        'compiled clauses, yp.assert_fact or yp.query("assertz")) -> bind or unbind variables afterwards -> use the '
        'fact 1-3 times in the same clause with different patterns, after the asserting query has finished or was '
        'abandoned, and from two simultaneously suspended enumerations". Observations (answers of every step, final '
        'store read back twice) vs reference A = reference B (copy at assert, fresh variables at every use). '
        'Non-trivial = the asserted term contains a variable (bound or unbound at assert time) below the top level, '
        'or an unbound variable and >= 2 uses; distinct = hash of the history')
ASSUMPTIONS = ['reference interpreters A and B agree', 'API variables are bound by unifications held open (bind/unbind steps), '
               'queries started under such a binding finish before it is undone']
RULE_ADDED = (' Added after the rounds of independently written changes (DESIGN.md 12.2): ' +
              'a retract suspended under an older open enumeration; two predicates asserted from terms sharing a variable; the same term OBJECT asserted again after its variables were rebound; lists with open tails.')
RULE = RULE + RULE_ADDED

CONST = [A('a'), A('b'), I(1), NIL]


def plan(tier, seed):
    if tier == 'quick':
        return {'n': 24000, 'deadline': 150,
                'floor': {'distinct_nontrivial': 5000, 'compiled_histories': 5000, 'api_histories': 3000,
                          'bound_before_assert': 4000, 'bound_after_assert': 4000, 'uses_in_same_clause': 6000,
                          'simultaneous_enumerations': 1000, 'use_after_backtracking': 5000}}
    return {'n': 900000, 'deadline': 540,
            'floor': {'distinct_nontrivial': 80000, 'compiled_histories': 80000, 'api_histories': 50000,
                      'bound_before_assert': 60000, 'bound_after_assert': 60000, 'uses_in_same_clause': 100000,
                      'simultaneous_enumerations': 15000, 'use_after_backtracking': 80000}}


def setup(tier, seed):
    return {'real': Real()}


def gterm(rng, vars_, d):
    r = rng.random()
    if d <= 0 or r < 0.3:
        return rng.choice(vars_) if rng.random() < 0.6 else rng.choice(CONST)
    if r < 0.75:
        n = rng.choice([1, 2, 2])
        return C(rng.choice(['f', 'g']), *[gterm(rng, vars_, d - 1) for _ in range(n)])
    items = [gterm(rng, vars_, d - 1) for _ in range(rng.choice([1, 2]))]
    return L(items, rng.choice(vars_)) if rng.random() < 0.3 else L(items)


def binding_goal(rng, vars_, targets):
    """a goal that binds one of the target variables: directly, through a chain, inside a structure"""
    v = rng.choice(targets)
    r = rng.random()
    if r < 0.4:
        return [('call', C('=', v, rng.choice(CONST + [C('f', rng.choice(CONST))])))]
    if r < 0.7:
        w = rng.choice(vars_)
        return [('call', C('=', v, w)), ('call', C('=', w, rng.choice(CONST)))]
    w = rng.choice(vars_)
    return [('call', C('=', v, C('g', w, rng.choice(CONST)))), ('call', C('=', w, rng.choice(CONST)))]


def _long(t, n=60):
    k = 0
    while t[0] == 'c' and t[1] == '.' and len(t[2]) == 2:
        k += 1
        if k > n:
            return True
        t = t[2][1]
    return False


def pattern(rng, t, vars_, d=0):
    """a pattern similar to the asserted term: variables replaced by constants / fresh variables"""
    if t[0] == 'c' and t[1] == '.' and d > 0 and _long(t):
        # (a very long list is matched as a whole: aliasing hundreds of positions through three variables only
        # measures how slow dereferencing long chains is)
        return V('_')
    if t[0] == 'v':
        r = rng.random()
        if r < 0.45:
            return rng.choice(CONST + [C('f', A('a'))])
        return rng.choice(vars_)
    if t[0] == 'c':
        if rng.random() < 0.1:
            return rng.choice(vars_)
        return ('c', t[1], tuple(pattern(rng, a, vars_, d + 1) for a in t[2]))
    return t if rng.random() < 0.85 else rng.choice(CONST)


def gen_compiled(rng):
    c = {'compiled_histories': 1}
    tv = [V('T%d' % i) for i in range(1, 4)]
    uv = [V('U%d' % i) for i in range(1, 5)]
    T = gterm(rng, tv, rng.choice([1, 2, 2, 3]))
    if rng.random() < 0.08:
        # a large asserted term (long list / wide structure with variables inside)
        T = L([rng.choice(tv + CONST) for _ in range(rng.choice([16, 17, 33, 40]))], rng.choice([NIL, tv[0]]))
    manyvars = rng.random() < 0.01
    if manyvars:
        # a term with hundreds of DISTINCT variables between two occurrences of the same variable (a board, a wide
        # record): whatever table the copying keeps must hold them all
        k = rng.choice([100, 126, 127, 128, 129, 130, 200, 257])
        T = C('f', tv[0], L([V('M%d' % i) for i in range(k)]), tv[0], rng.choice([tv[1], tv[0]]))
        c['terms_with_100_or_more_distinct_variables'] = 1
    fact = C('p', T) if rng.random() < 0.8 else C('p', T, gterm(rng, tv, 1))
    targets = term_vars(fact) or tv[:1]
    goals = []
    if rng.random() < 0.55:
        for _ in range(rng.choice([1, 2])):
            goals += binding_goal(rng, tv, targets)
        c['bound_before_assert'] = 1
    an = rng.choice(['assertz', 'assertz', 'asserta'])
    if rng.random() < 0.3:
        goals += [('call', C('=', V('G'), fact)), ('call', C(an, V('G')))]
    else:
        goals.append(('call', C(an, fact)))
    if rng.random() < 0.55:
        for _ in range(rng.choice([1, 2])):
            goals += binding_goal(rng, tv, targets)
        c['bound_after_assert'] = 1
    nuse = rng.choice([0, 1, 2, 3])
    for ui in range(nuse):
        pat = ('c', 'p', tuple(pattern(rng, a, uv) for a in fact[2]))
        if ui == 0 and rng.random() < 0.3:
            # an earlier use whose answers escape (collected by findall) before later uses bind the fact's variables
            fv2 = [V('F%d' % i) for i in range(len(fact[2]))]
            goals.append(('call', C('findall', C('got', *fv2), C('p', *fv2), V('Bag'))))
            c['findall_before_later_uses'] = 1
        goals.append(('call', pat))
    if nuse:
        c['uses_in_same_clause'] = nuse
    hv = tv + uv + [V('G'), V('Bag')]
    head = C('t', *hv)
    hist = []
    if rng.random() < 0.3:
        hist.append(('assert_fact', C('p', *[rng.choice(CONST) for _ in fact[2]]), True))
    hist.append(('load', [(head, gen.conj(goals))], True))
    lim = rng.choice([None, None, 1])
    hist.append(('run', 't', [V('Q%d' % i) for i in range(len(hv))], lim))
    c['use_after_backtracking'] = 1
    # uses after the asserting query has finished / backtracked
    n = len(fact[2])
    for k in range(rng.choice([1, 2])):
        pat = [pattern(rng, a, [V('R%d_%d' % (k, i)) for i in range(3)]) for a in fact[2]]
        hist.append(('run', 'p', pat, None))
    hist.append(('dump', [('p', n)]))
    hist.append(('dump', [('p', n)]))
    nt = any(a[0] == 'c' and not is_ground(a) for a in fact[2]) or (not is_ground(fact) and nuse >= 2)
    return hist, c, nt


def gen_shared(rng):
    """facts of DIFFERENT predicates asserted from terms sharing unbound variables; uses of both open at once"""
    c = {'compiled_histories': 1, 'shared_variable_across_predicates': 1}
    Vv, Ww = V('Sv'), V('Sw')
    t1 = rng.choice([C('slot', A('left'), Vv), C('slot', C('f', Vv), Ww), C('slot', Vv, Vv)])
    t2 = rng.choice([C('owner', Vv, A('nobody')), C('owner', C('g', Vv, Ww), A('x')), C('owner', Ww, Vv)])
    via_api = rng.random() < 0.4
    hist = []
    if via_api:
        hist += [('assert_fact', t1, True), ('assert_fact', t2, True)]
    Aa, Bb, Cc, Dd = V('A'), V('B'), V('C'), V('D')
    uses = [('call', ('c', 'slot', tuple(rng.choice([Aa, Cc, A('left'), C('f', Aa)]) for _ in t1[2]))),
            ('call', ('c', 'owner', tuple(rng.choice([Bb, Dd, A('nobody'), C('g', Bb, Dd)]) for _ in t2[2])))]
    if rng.random() < 0.5:
        uses.reverse()
    binds = [('call', C('=', Aa, I(1))), ('call', C('=', Bb, I(2)))]
    rng.shuffle(binds)
    goals = ([] if via_api else [('call', C('assertz', t1)), ('call', C('assertz', t2))]) + uses + binds[:rng.choice([1, 2])]
    if rng.random() < 0.3:
        goals.insert(len(goals) - 1, uses[0])
    head = C('t', Aa, Bb, Cc, Dd)
    hist += [('load', [(head, gen.conj(goals))], True), ('run', 't', [V('Q0'), V('Q1'), V('Q2'), V('Q3')], rng.choice([None, 1])),
             ('dump', [('slot', 2), ('owner', 2)]), ('run', 't', [V('R0'), V('R1'), V('R2'), V('R3')], 1), ('dump', [('slot', 2), ('owner', 2)])]
    return hist, c, True


def gen_moved(rng):
    """a fact with unbound variables is used (query or retract, still open); inside that use a term containing those
    - still unbound - variables is asserted as ANOTHER fact; then the clause binds them; the new fact is used while
    the binding holds and after it is gone: it holds what the term was when it was asserted"""
    c = {'compiled_histories': 1, 'terms_moved_from_an_open_use_into_a_new_fact': 1}
    K, Vv, W, X2 = V('K'), V('Vv'), V('W'), V('X2')
    src_fact = rng.choice([C('slot', A('a'), V('_')), C('slot', V('S'), V('S')), C('slot', A('a'), C('f', V('S1'), V('_')))])
    take = rng.choice([C('slot', K, Vv), C('retract', C('slot', K, Vv))])
    new = rng.choice([C('entry', K, Vv), C('entry', K, C('f', Vv)), C('entry', L([Vv], V('_')), K), C('entry', Vv, Vv)])
    bind = rng.choice([C('=', Vv, A('filled')), C('=', Vv, C('f', A('x'), A('y'))), C('=', K, A('b'))])
    use1 = C('entry', rng.choice([A('a'), X2, K]), W)
    goals = [('call', take), ('call', C(rng.choice(['assertz', 'asserta']), new)), ('call', bind), ('call', use1)]
    if rng.random() < 0.3:
        goals.insert(2, ('call', C('entry', V('E1'), V('E2'))))
    via_api = rng.random() < 0.5
    hist = [('assert_fact', src_fact, True)] if via_api else [('load', [(src_fact, ('true',))], True)]
    head = C('t', K, Vv, W, X2)
    hist += [('load', [(head, gen.conj(goals))], False), ('run', 't', [V('Q0'), V('Q1'), V('Q2'), V('Q3')], rng.choice([None, 1])),
             ('dump', [('entry', 2), ('slot', 2)]), ('run', 'entry', [V('R0'), V('R1')], None), ('dump', [('entry', 2)])]
    return hist, c, True


def gen_api(rng):
    c = {'api_histories': 1}
    tv = [V('T%d' % i) for i in range(1, 4)]
    T = gterm(rng, tv, rng.choice([1, 2]))
    fact = C('p', T)
    fv = term_vars(fact)
    hist = []
    bid = 0
    open_b = []
    if fv and rng.random() < 0.6:
        for v in rng.sample(fv, rng.choice([1, min(2, len(fv))])):
            bid += 1
            r = rng.random()
            if r < 0.5:
                hist.append(('bind', bid, v, rng.choice(CONST + [C('f', A('b'))])))
            else:
                w = rng.choice(tv)
                hist.append(('bind', bid, v, C('g', w)))
                open_b.append(bid)
                bid += 1
                hist.append(('bind', bid, w, rng.choice(CONST)))
            open_b.append(bid)
        c['bound_before_assert'] = 1
    if rng.random() < 0.5:
        hist.append(('assert_fact', fact, rng.random() < 0.7))
    else:
        hist.append(('run', rng.choice(['assertz', 'asserta']), [fact], None))
    # undo some or all bindings (LIFO), then maybe bind the variables to something else
    while open_b and rng.random() < 0.8:
        hist.append(('unbind', open_b.pop()))
    still = list(open_b)
    if fv and rng.random() < 0.5 and not still:
        bid += 1
        hist.append(('bind', bid, rng.choice(fv), rng.choice(CONST)))
        open_b.append(bid)
        c['bound_after_assert'] = 1
    if rng.random() < 0.35:
        # the host program uses the term as a template: the SAME term (same object, see history.py) is asserted
        # again under the bindings of this moment, and once more after they changed again
        hist.append(('assert_fact', fact, True))
        c['same_term_asserted_again'] = 1
        if open_b and rng.random() < 0.6:
            hist.append(('unbind', open_b.pop()))
            if fv and not open_b and rng.random() < 0.7:
                bid += 1
                hist.append(('bind', bid, rng.choice(fv), rng.choice(CONST + [C('f', A('b'))])))
                open_b.append(bid)
            hist.append(('assert_fact', fact, rng.random() < 0.5))
    r = rng.random()
    uv = [V('R%d' % i) for i in range(4)]
    if r < 0.2:
        # an older enumeration is open, a retract of the same fact is suspended at its answer (its pattern more
        # instantiated, or its variables bound by the caller afterwards): the older enumeration must still see the
        # fact as it was stored
        hist.insert(0, ('assert_fact', C('p', A('first')), True))
        pat = [pattern(rng, a, uv[:2]) for a in fact[2]]
        hist += [('start', 1, 'p', [V('E1')]), ('next', 1), ('start', 2, 'retract', [C('p', *pat)]), ('next', 2)]
        hist += [('next', 1), ('next', 1), ('close', 2), ('close', 1)]
        c['retract_suspended_under_older_enumeration'] = 1
    elif r < 0.4:
        # two simultaneously suspended enumerations constraining the fact differently
        p1 = [pattern(rng, a, uv[:2]) for a in fact[2]]
        p2 = [pattern(rng, a, uv[2:]) for a in fact[2]]
        hist += [('start', 1, 'p', p1), ('next', 1), ('start', 2, 'p', p2), ('next', 2), ('next', 1), ('next', 2),
                 ('close', 1), ('close', 2)]
        c['simultaneous_enumerations'] = 1
    else:
        for k in range(rng.choice([1, 2, 3])):
            hist.append(('run', 'p', [pattern(rng, a, [V('S%d_%d' % (k, i)) for i in range(2)]) for a in fact[2]], None))
    while open_b:
        hist.append(('unbind', open_b.pop()))
    hist.append(('dump', [('p', 1)]))
    c['use_after_backtracking'] = 1
    nt = any(a[0] == 'c' and not is_ground(a) for a in fact[2]) or not is_ground(fact)
    return hist, c, nt


def judge(ctx, hist, c, nt):
    d = H.compare_history(ctx['real'], hist, budgetA=20000, atom_mode=_atom_mode(hist, c))
    r = {'c': c, 'nt': False, 'key': H.normalise(hist)}
    if d['status'] == 'discard':
        r['discard'] = d['reason']
        if d['reason'] == 'oracle_disagreement':
            c['oracle_disagreement'] = 1
        return r
    if d['status'] == 'violation':
        r['v'] = {'kind': d['kind'], 'detail': d['detail'], 'witness': {'history': H.normalise(hist)}}
        r['nt'] = True
        return r
    r['nt'] = nt
    if nt:
        r['sample'] = {'history': [short(s) for s in hist[:10]], 'final': d['obs'][-1]}
    return r


def run_case(ctx, seed, idx, tier):
    rng = random.Random((seed * 1000003 + idx) * 7 + 13)
    r0 = rng.random()
    if r0 < 0.12:
        hist, c, nt = gen_shared(rng)
    elif r0 < 0.2:
        hist, c, nt = gen_moved(rng)
    elif r0 < 0.64:
        hist, c, nt = gen_compiled(rng)
    else:
        hist, c, nt = gen_api(rng)
    return judge(ctx, hist, c, nt)


def corpus():
    X, Y, Z = V('X'), V('Y'), V('Z')
    eq = lambda a, b: ('call', C('=', a, b))
    return [
        # F13/F14 witnesses named in the property
        {'hist': [('load', [(C('t', X, Y), gen.conj([eq(X, C('f', Y)), eq(Y, A('a')), ('call', C('assertz', C('p', X)))]))], True),
                  ('run', 't', [V('Q0'), V('Q1')], None), ('run', 'p', [C('f', A('b'))], None), ('dump', [('p', 1)])]},
        {'hist': [('load', [(A('t'), gen.conj([('call', C('assertz', C('p', V('_')))), ('call', C('p', A('a'))), ('call', C('p', A('b')))]))], True),
                  ('run', 't', [], None), ('dump', [('p', 1)])]},
        {'hist': [('load', [(C('t', X), gen.conj([('call', C('assertz', C('p', X))), eq(X, A('a')), ('call', C('p', A('b')))]))], True),
                  ('run', 't', [V('Q0')], None), ('dump', [('p', 1)])]},
        {'hist': [('bind', 1, X, C('g', Y)), ('bind', 2, Y, A('a')), ('assert_fact', C('p', C('f', X)), True), ('unbind', 2), ('unbind', 1),
                  ('run', 'p', [V('R')], None), ('bind', 3, Y, A('b')), ('run', 'p', [V('R2')], None), ('unbind', 3), ('dump', [('p', 1)])]},
        {'hist': [('assert_fact', C('p', C('f', Z)), True), ('start', 1, 'p', [C('f', A('a'))]), ('next', 1),
                  ('start', 2, 'p', [C('f', A('b'))]), ('next', 2), ('close', 1), ('close', 2), ('dump', [('p', 1)])]},
    ]


def run_corpus(ctx, item):
    return judge(ctx, item['hist'], {}, True)


def replay(ctx, w):
    from ..diff import totuple
    return judge(ctx, fix_history([totuple(s) for s in w['history']]), {}, True)


def _atom_mode(hist, c):
    """where the host program's atom objects come from (same terms in every mode): made at the time of use, made once
    and held (also across clear()), or made by another engine"""
    import hashlib
    k = int(hashlib.md5(repr(hist).encode('utf8', 'backslashreplace')).hexdigest(), 16) % 10
    mode = 'fresh' if k < 4 else ('held' if k < 6 else ('other' if k < 8 else 'mixed'))
    c['atoms_' + mode] = 1
    return mode
