"""C14 - changing a predicate while it is being enumerated (logical update view)."""
import random
from .. import history as H
from .. import gen
from ..real import Real
from ..terms import V, A, C, I, rterm

PROPERTY = 'C14'
LEVEL = 'exploration'
RULE = ('(a) API-level interleavings on p/1 (and p/2): 1-3 enumerations (query or retract with a variable or '
        'partially bound pattern), each first stepped directly after creation, interleaved step by step with '
        'asserta/assertz/retract-first/retractall on the same predicate (through assert_fact and through '
        'yp.query), finally drained; answers of every step, and the final store, are compared with reference A = '
        'reference B, both implementing the logical update view (enumeration works on the facts present at its '
        'first step; a suspended retract skips facts removed meanwhile). (b) compiled bodies that assert/retract '
        'between two answers of an enumeration of the same predicate: drain loop, counter update loop, nested '
        'enumerations, random goal sequences over {p(X), retract(p(X)), assertz, asserta, retractall, fail}. '
        'Termination is decided on a logical clock (engine events <= 20000 x reference steps + 2000000). '
        'Thorough adds all interleavings of 2 enumerations x <= 3 modifications over a 3-fact predicate. '
        'Non-trivial = at least one modification between two steps of an open enumeration; distinct = hash of the history')
ASSUMPTIONS = ['"the goal started" = first next() of its generator (a generator does nothing before)',
               'reference interpreters A and B agree']
RULE_ADDED = (' Added after the rounds of independently written changes (DESIGN.md 12.2): ' +
              'predicates of 17-130 facts modified at both ends; zero-argument predicates and a token-pool idiom; bounded-exhaustive interleavings.')
RULE = RULE + RULE_ADDED

KEYS = [('p', 1), ('p', 2), ('c', 1)]
VALS = [A('a'), A('b'), A('c'), I(1), I(2)]


def plan(tier, seed):
    if tier == 'quick':
        return {'n': 26000, 'deadline': 150,
                'floor': {'distinct_nontrivial': 6000, 'mods_while_suspended': 30000, 'api_histories': 8000,
                          'compiled_histories': 6000, 'retract_enumerations': 6000, 'query_enumerations': 6000}}
    return {'n': 650000 + exh_count(), 'deadline': 540, 'exh': exh_count(),
            'floor': {'distinct_nontrivial': 30000, 'mods_while_suspended': 150000, 'api_histories': 40000,
                      'compiled_histories': 30000, 'exhaustive_interleavings': exh_count()}}


MODS = [('assert_fact', C('p', A('n')), True), ('assert_fact', C('p', A('n')), False),
        ('run', 'retract', [C('p', V('_'))], 1), ('run', 'retractall', [C('p', A('b'))], None),
        ('run', 'retract', [C('p', A('c'))], None)]
KINDS = ['p', 'retract']


def exh_schedules():
    """all interleavings of two enumerations (each 4 steps: enough to drain 3 facts + end) with <= 3 modifications.
    Enumerated as sequences over {E0, E1, M} with exactly 4 E0, 4 E1 and m in 0..3 Ms at any position;
    modification kinds and enumeration kinds vary by index."""
    out = []

    def rec(e0, e1, m, seq):
        if e0 == 0 and e1 == 0:
            out.append(tuple(seq))
            return
        if e0:
            rec(e0 - 1, e1, m, seq + ['E0'])
        if e1:
            rec(e0, e1 - 1, m, seq + ['E1'])
        if m:
            rec(e0, e1, m - 1, seq + ['M'])
    for m in range(0, 4):
        rec(4, 4, m, [])
    return out


_EXH = None


def exh_count():
    global _EXH
    if _EXH is None:
        _EXH = exh_schedules()
    return len(_EXH) * 4


def EXHAUSTIVE(tier):
    if tier == 'thorough':
        return {'schedules': len(exh_schedules()), 'enumeration_kind_pairs': 4, 'total': exh_count()}
    return None


def setup(tier, seed):
    return {'real': Real(), 'exh': exh_count() if tier == 'thorough' else 0}


def exh_history(idx):
    sch = _EXH[idx // 4]
    kinds = (KINDS[(idx % 4) // 2], KINDS[idx % 2])
    hist = [('assert_fact', C('p', A('a')), True), ('assert_fact', C('p', A('b')), True), ('assert_fact', C('p', A('c')), True)]
    started = [False, False]
    mi = idx
    mods = 0
    for s in sch:
        if s == 'M':
            hist.append(MODS[mi % len(MODS)])
            mi = mi // len(MODS) + 1
            if any(started):
                mods += 1
        else:
            e = int(s[1])
            if not started[e]:
                started[e] = True
                X = V('X%d' % e)
                if kinds[e] == 'p':
                    hist.append(('start', e, 'p', [X]))
                else:
                    hist.append(('start', e, 'retract', [C('p', X)]))
            hist.append(('next', e))
    hist.append(('dump', [('p', 1)]))
    return hist, mods


def gen_reset_and_reload(rng):
    """'reset the table and load it again while a drain is in progress': an enumeration (retract or query) is suspended
    after one or two answers, the predicate is emptied completely (retractall, or retracts one by one) and then filled
    again with k facts for every small k - equal to, fewer and more than the writes it had seen before"""
    c = {'api_histories': 1, 'reset_and_reload_histories': 1}
    m = rng.choice([1, 2, 3, 3, 4, 5])
    k = rng.randrange(0, m + 5)
    X = V('X')
    hist = [('assert_fact', C('p', A('v%d' % i)), True) for i in range(m)]
    kind = rng.choice(['retract', 'retract', 'query'])
    hist.append(('start', 1, 'retract', [C('p', X)]) if kind == 'retract' else ('start', 1, 'p', [X]))
    for _ in range(rng.choice([1, 1, 2])):
        hist.append(('next', 1))
    if rng.random() < 0.6:
        hist.append(('run', 'retractall', [C('p', V('_'))], None))
    else:
        for _ in range(m):
            hist.append(('run', 'retract', [C('p', V('_'))], 1))
    for j in range(k):
        # the reloaded facts: the same values again, or new ones
        val = A('v%d' % j) if rng.random() < 0.6 else A('w%d' % j)
        hist.append(('assert_fact', C('p', val), rng.random() < 0.8))
    for _ in range(m + 2):
        hist.append(('next', 1))
    hist.append(('dump', [('p', 1)]))
    return hist, c, True


def gen_api(rng):
    key = rng.choice([('p', 1), ('p', 1), ('p', 2), ('p', 2), ('p', 3), ('tok', 0)])
    name, n = key
    hist = []
    c = {'api_histories': 1}
    # keyed tables: the first argument is one of two atoms, calls bind it, and what happens meanwhile is mostly
    # assertz of further facts under the same key (whatever per-key structure exists gets extended while in use)
    keyed = n >= 2 and rng.random() < 0.6
    if keyed:
        c['keyed_tables'] = 1

    def fact():
        if keyed:
            return C(name, A(rng.choice(['ka', 'ka', 'kb'])), *[rng.choice(VALS) for _ in range(n - 1)])
        return C(name, *[rng.choice(VALS) for _ in range(n)]) if n else A(name)
    big = rng.random() < 0.15
    live = []
    if big:
        # large predicates: size-dependent code paths (thresholds such as 16/32/64/128 facts)
        nbig = rng.choice([17, 33, 34, 40, 65, 70, 130])
        c['large_predicates'] = 1
        for i in range(nbig):
            t = C(name, *([I(100 + i)] + [rng.choice(VALS) for _ in range(n - 1)])) if n else A(name)
            hist.append(('assert_fact', t, True))
            live.append(100 + i)
        nxt = [100 + nbig]
    else:
        for _ in range(rng.choice([0, 1, 2, 3, 4, 5])):
            hist.append(('assert_fact', fact(), True))
    nenum = rng.choice([1, 1, 2, 3])
    open_ = []
    started = 0
    mods = 0
    steps = rng.choice([4, 8, 12, 16])
    vi = 0
    for _ in range(steps):
        r = rng.random()
        if started < nenum and (not open_ or r < 0.2):
            vi += 1
            args = [V('E%d_%d' % (vi, i)) if rng.random() < 0.8 else rng.choice(VALS) for i in range(n)]
            if keyed and rng.random() < 0.85:
                args[0] = A(rng.choice(['ka', 'ka', 'kb']))
            if rng.random() < (0.8 if keyed else 0.5):
                hist.append(('start', vi, name, args))
                c['query_enumerations'] = c.get('query_enumerations', 0) + 1
            else:
                hist.append(('start', vi, 'retract', [C(name, *args) if n else A(name)]))
                c['retract_enumerations'] = c.get('retract_enumerations', 0) + 1
            hist.append(('next', vi))
            open_.append(vi)
            started += 1
        elif r < 0.55 and open_:
            hist.append(('next', rng.choice(open_)))
        elif r < 0.62 and open_:
            q = rng.choice(open_)
            open_.remove(q)
            hist.append(('close', q))
        elif big:
            # modifications at the ends of the list: remove the last / first fact, then add a new one
            m = rng.random()
            if m < 0.45 and live:
                k = live.pop(-1) if rng.random() < 0.5 else live.pop(0) if rng.random() < 0.5 else live.pop(rng.randrange(len(live)))
                hist.append(('run', 'retract', [C(name, *([I(k)] + [V('_')] * (n - 1))) if n else A(name)], 1))
            else:
                z = rng.random() < 0.6
                t = C(name, *([I(nxt[0])] + [rng.choice(VALS) for _ in range(n - 1)])) if n else A(name)
                hist.append(('assert_fact', t, z))
                if z:
                    live.append(nxt[0])
                else:
                    live.insert(0, nxt[0])
                nxt[0] += 1
            if open_:
                mods += 1
        else:
            m = rng.random()
            if keyed and m < 0.8:
                m = 0.0
            if m < 0.35:
                hist.append(('assert_fact', fact(), rng.random() < (0.9 if keyed else 0.6)))
            elif m < 0.55:
                hist.append(('run', rng.choice(['assertz', 'asserta']), [fact()], None))
            elif m < 0.8:
                pat = C(name, *[V('_') if rng.random() < 0.6 else rng.choice(VALS) for _ in range(n)]) if n else A(name)
                hist.append(('run', 'retract', [pat], rng.choice([1, 1, None])))
            else:
                pat = C(name, *[V('_') if rng.random() < 0.5 else rng.choice(VALS) for _ in range(n)]) if n else A(name)
                hist.append(('run', 'retractall', [pat], None))
            if open_:
                mods += 1
    # drain
    for q in open_:
        for _ in range(8 if not big else 12):
            hist.append(('next', q))
    hist.append(('dump', [key]))
    c['mods_while_suspended'] = mods
    return hist, c, mods > 0


def gen_compiled(rng):
    c = {'compiled_histories': 1}
    r = rng.random()
    X, Y, N = V('X'), V('Y'), V('N')
    hist = []
    facts = [C('p', v) for v in rng.sample(VALS, rng.choice([0, 1, 2, 3, 4]))]
    for f in facts:
        hist.append(('assert_fact', f, True))
    if r < 0.12:
        cl = [(A('drain'), gen.conj([('call', C('p', X)), ('call', C('retract', C('p', X))), ('fail',)])), (A('drain'), ('true',))]
        hist += [('load', cl, True), ('run', 'drain', [], None)]
        c['idiom_drain'] = 1
    elif r < 0.24:
        z = A('z')
        for _ in range(rng.choice([0, 1, 2, 3])):
            z = C('s', z)
        cl = [(A('cnt'), gen.conj([('call', C('retract', C('c', N))), ('call', C('assertz', C('c', C('s', N)))), ('fail',)])),
              (A('cnt'), ('true',))]
        hist += [('assert_fact', C('c', z), True), ('load', cl, True)]
        for _ in range(rng.choice([1, 2, 3])):
            hist.append(('run', 'cnt', [], None))
        c['idiom_counter'] = 1
    elif r < 0.29:
        # token pool of zero-argument facts: take one, take another, give one back, fail
        for _ in range(rng.choice([2, 3, 4])):
            hist.append(('assert_fact', A('tok'), True))
        goals = [('call', C('retract', A('tok')))]
        for _ in range(rng.choice([1, 2])):
            goals.append(rng.choice([('call', C('once', C('retract', A('tok')))), ('call', C('assertz', A('tok'))), ('call', C('asserta', A('tok'))), ('call', A('tok'))]))
        goals.append(('fail',))
        cl = [(A('work'), gen.conj(goals)), (A('work'), ('true',))]
        hist += [('load', cl, True), ('run', 'work', [], None), ('dump', [('tok', 0)])]
        c['idiom_token_pool'] = 1
    elif r < 0.34:
        cl = [(C('t', X), gen.conj([('call', C('assertz', C('p', I(1)))), ('call', C('p', X)), ('call', C('assertz', C('p', I(2))))]))]
        hist += [('load', cl, True), ('run', 't', [V('Q0')], rng.choice([None, None, 1, 2]))]
        c['idiom_assert_while_enumerating'] = 1
    else:
        nv = [0]

        def var():
            nv[0] += 1
            return V('V%d' % nv[0])
        goals = []
        pool = []
        for _ in range(rng.choice([2, 3, 4, 5])):
            g = rng.random()
            if g < 0.35:
                v = var()
                pool.append(v)
                goals.append(('call', C('p', v)))
            elif g < 0.55:
                v = rng.choice(pool) if pool and rng.random() < 0.6 else var()
                goals.append(('call', C('retract', C('p', v))))
            elif g < 0.72:
                v = rng.choice(pool) if pool and rng.random() < 0.4 else rng.choice(VALS + [A('n')])
                goals.append(('call', C(rng.choice(['assertz', 'asserta']), C('p', v))))
            elif g < 0.82:
                goals.append(('call', C('retractall', C('p', rng.choice(VALS + [V('_')])))))
            else:
                v = var()
                goals.append(('call', C('findall', rng.choice([A('x'), V('F%d' % nv[0])]), C('p', V('F%d' % nv[0])), v)))
        if rng.random() < 0.3:
            goals.append(('fail',))
        vars_ = [V('V%d' % i) for i in range(1, nv[0] + 1)]
        head = C('t', *vars_) if vars_ else A('t')
        cl = [(head, gen.conj(goals))]
        if rng.random() < 0.3:
            cl.append((head, ('true',)))
        hist += [('load', cl, True), ('run', 't', [V('Q%d' % i) for i in range(len(vars_))], rng.choice([None, None, None, 1, 2]))]
        c['random_bodies'] = 1
    hist.append(('dump', [('p', 1), ('c', 1)]))
    c['mods_while_suspended'] = 1
    return hist, c, True


def judge(ctx, hist, c, nt):
    d = H.compare_history(ctx['real'], hist, budgetA=20000, atom_mode=_atom_mode(hist, c))
    r = {'c': c, 'nt': False, 'key': H.normalise(hist)}
    if d['status'] == 'discard':
        r['discard'] = d['reason']
        if d['reason'] == 'oracle_disagreement':
            c['oracle_disagreement'] = 1
        return r
    if d['status'] == 'violation':
        kind = d['kind']
        if kind == 'exception:StepBudget':
            kind = 'nontermination'
        r['v'] = {'kind': kind, 'detail': d['detail'], 'witness': {'history': H.normalise(hist)}}
        r['nt'] = True
        return r
    r['nt'] = nt
    if nt:
        r['sample'] = {'history': [short(s) for s in hist[:14]], 'n_steps': len(hist), 'final': d['obs'][-1]}
    return r


def short(st):
    from ..terms import rprogram
    if st[0] == 'load':
        return 'load: ' + rprogram(st[1]).strip()
    if st[0] in ('assert_fact',):
        return '%s %s %s' % (st[0], rterm(st[1]), 'z' if st[2] else 'a')
    if st[0] in ('start',):
        return 'start#%s %s(%s)' % (st[1], st[2], ','.join(rterm(a) for a in st[3]))
    if st[0] == 'run':
        return 'run %s(%s) limit=%s' % (st[1], ','.join(rterm(a) for a in st[2]), st[3])
    return ' '.join(str(x) for x in st)


def run_case(ctx, seed, idx, tier):
    if idx < ctx['exh']:
        hist, mods = exh_history(idx)
        return judge(ctx, hist, {'exhaustive_interleavings': 1, 'mods_while_suspended': mods}, mods > 0)
    rng = random.Random((seed * 1000003 + idx) * 7 + 14)
    r0 = rng.random()
    if r0 < 0.06:
        hist, c, nt = gen_reset_and_reload(rng)
    elif r0 < 0.6:
        hist, c, nt = gen_api(rng)
    else:
        hist, c, nt = gen_compiled(rng)
    return judge(ctx, hist, c, nt)


def corpus():
    X, N = V('X'), V('N')
    p = lambda v: C('p', v)
    return [
        # F15 witnesses named in the property
        {'hist': [('load', [(C('t', X), gen.conj([('call', C('assertz', p(I(1)))), ('call', p(X)), ('call', C('assertz', p(I(2))))]))], True),
                  ('run', 't', [V('Q')], None), ('dump', [('p', 1)])]},
        {'hist': [('assert_fact', C('c', A('z')), True),
                  ('load', [(A('cnt'), gen.conj([('call', C('retract', C('c', N))), ('call', C('assertz', C('c', C('s', N)))), ('fail',)])), (A('cnt'), ('true',))], True),
                  ('run', 'cnt', [], None), ('dump', [('c', 1)])]},
        {'hist': [('assert_fact', p(A('a')), True), ('assert_fact', p(A('b')), True), ('assert_fact', p(A('c')), True),
                  ('load', [(A('drain'), gen.conj([('call', p(X)), ('call', C('retract', p(X))), ('fail',)])), (A('drain'), ('true',))], True),
                  ('run', 'drain', [], None), ('dump', [('p', 1)])]},
        {'hist': [('assert_fact', p(A('a')), True), ('assert_fact', p(A('b')), True),
                  ('start', 1, 'retract', [p(V('R'))]), ('next', 1), ('assert_fact', p(A('c')), True),
                  ('run', 'retract', [p(A('b'))], None), ('next', 1), ('next', 1), ('dump', [('p', 1)])]},
        {'hist': [('assert_fact', p(A('a')), True), ('start', 1, 'p', [V('E')]), ('next', 1),
                  ('assert_fact', p(A('b')), True), ('assert_fact', p(A('z')), False), ('next', 1), ('dump', [('p', 1)])]},
    ]


def run_corpus(ctx, item):
    return judge(ctx, item['hist'], {}, True)


def replay(ctx, w):
    from ..diff import totuple
    hist = [totuple(s) for s in w['history']]
    hist = [tuple(list(s) if not isinstance(s, tuple) else s) for s in hist]
    return judge(ctx, fix_history(hist), {}, True)


def fix_history(hist):
    """JSON round trip turns every list into a tuple: restore list-typed fields"""
    out = []
    for s in hist:
        s = list(s)
        if s[0] == 'load':
            s[1] = [tuple(cl) for cl in s[1]]
        elif s[0] == 'start':
            s[3] = list(s[3])
        elif s[0] == 'run':
            s[2] = list(s[2])
        elif s[0] == 'dump':
            s[1] = [tuple(k) for k in s[1]]
        out.append(tuple(s))
    return out


def _atom_mode(hist, c):
    """where the host program's atom objects come from (same terms in every mode): made at the time of use, made once
    and held (also across clear()), or made by another engine"""
    import hashlib
    k = int(hashlib.md5(repr(hist).encode('utf8', 'backslashreplace')).hexdigest(), 16) % 10
    mode = 'fresh' if k < 4 else ('held' if k < 6 else ('other' if k < 8 else 'mixed'))
    c['atoms_' + mode] = 1
    return mode
