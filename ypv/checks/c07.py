"""C07 - the fact database behaves as ordered lists for every history."""
import random
from .. import history as H
from ..real import Real
from ..terms import V, A, C, I, L, rterm

PROPERTY = 'C07'
LEVEL = 'exploration'
RULE = ('histories of 5-30 operations over p/0 p/1 p/2 q/1 q/2 r/0: asserta/assertz (through yp.assert_fact, '
        'yp.query("assertz",..), a compiled one-clause driver with the goal inline, a driver with the goal in a '
        'variable bound at run time), retract (API / compiled / goal in variable; exhausted or abandoned after the '
        'k-th answer), retractall, queries with ground and partially bound patterns (repeated variables), clear; '
        'after EVERY operation the full contents of every name/arity are read back with an all-variables query. '
        'Observations (answers of each operation + every dump) are compared with reference A = reference B '
        '(ordered-list fact store). Thorough adds all histories of length <= 4 over a 12-operation alphabet. '
        'Non-trivial = >= 3 state-changing operations on one predicate; distinct = hash of the history')
ASSUMPTIONS = ['the ordered-list model is the fact store of reference interpreters A and B (independent implementations that must agree)',
               'no modification while an enumeration is suspended (that is C14)',
               'non-callable arguments (unbound, integer) to assert/retract are type errors: not generated']
RULE_ADDED = (' Added after the rounds of independently written changes (DESIGN.md 12.2): ' +
              'predicates of 16-130 facts; the same functor name with several arities inside stored facts; atoms made at use / held across clear() / made by another engine (also for the predicate name); a few non-ground facts; every fifth script loaded through load_script_from_file.')
RULE = RULE + RULE_ADDED

KEYS = [('p', 0), ('p', 1), ('p', 2), ('q', 1), ('q', 2), ('r', 0)]
CONST = [A('a'), A('b'), A('c'), I(1), I(2), C('f', A('a')), C('f', A('a'), A('b')), C('f', A('a'), A('b'), I(1)), C('g', C('f', A('a'))), C('g', C('f', A('a'), A('b')))]

ALPHABET = None


def alphabet():
    """12 fixed operations for the bounded-exhaustive slice"""
    global ALPHABET
    if ALPHABET is None:
        X = V('X')
        ALPHABET = [
            ('assert', 'z', 'assert_fact', C('p', A('a'))), ('assert', 'a', 'compiled', C('p', A('b'))),
            ('assert', 'z', 'compiled_var', C('p', A('a'))), ('assert', 'z', 'api_query', A('p')),
            ('retract', 'api_query', C('p', X), None), ('retract', 'compiled', C('p', X), 1),
            ('retract', 'compiled_var', C('p', A('a')), None), ('retract', 'api_query', A('p'), 1),
            ('retractall', 'compiled', C('p', A('a'))), ('retractall', 'api_query', C('p', X)),
            ('retractall', 'compiled_var', A('p')), ('clear',),
        ]
    return ALPHABET


def plan(tier, seed):
    if tier == 'quick':
        return {'n': 5000, 'deadline': 150,
                'floor': {'distinct_nontrivial': 1000, 'ops_assert': 10000, 'ops_retract': 5000, 'ops_retractall': 2000,
                          'retract_abandoned': 1000, 'dumps_compared': 40000, 'zero_arity_ops': 3000,
                          'goal_in_variable_ops': 3000, 'ops_on_unknown_predicate': 500}}
    a = len(alphabet())
    exh = a + a ** 2 + a ** 3 + a ** 4
    return {'n': 220000 + exh, 'deadline': 540, 'exh': exh,
            'floor': {'distinct_nontrivial': 15000, 'ops_assert': 150000, 'ops_retract': 80000, 'ops_retractall': 30000,
                      'retract_abandoned': 15000, 'dumps_compared': 600000, 'exhaustive_histories': exh}}


def EXHAUSTIVE(tier):
    if tier == 'thorough':
        a = len(alphabet())
        return {'alphabet': a, 'max_length': 4, 'histories': a + a ** 2 + a ** 3 + a ** 4}
    return None


def setup(tier, seed):
    a = len(alphabet())
    return {'real': Real(), 'exh': (a + a ** 2 + a ** 3 + a ** 4) if tier == 'thorough' else 0}


def rand_fact(rng, key, ground=True):
    name, n = key
    if n == 0:
        return A(name)
    if rng.random() < 0.08:
        # now and then a fact that is not ground: a variable, a shared variable, a list with an open tail
        fv = [V('Fv'), V('Ft')]
        pool = CONST + [fv[0], fv[0], L([A('a')], fv[1]), C('f', fv[0]), L([fv[0], A('b')], fv[1])]
        return C(name, *[rng.choice(pool) for _ in range(n)])
    return C(name, *[rng.choice(CONST) for _ in range(n)])


def rand_pattern(rng, key, step):
    name, n = key
    if n == 0:
        return A(name)
    vs = [V('X%d_%d' % (step, i)) for i in range(2)]
    args = []
    for i in range(n):
        r = rng.random()
        if r < 0.45:
            args.append(rng.choice(vs[:1] if rng.random() < 0.5 else vs))
        elif r < 0.55:
            args.append(V('_'))
        elif r < 0.7:
            # compound patterns: same functor name as stored terms, various arities, variables inside
            args.append(rng.choice([C('f', vs[0]), C('f', A('a'), vs[0]), C('f', A('a'), A('b'), vs[1]), C('g', C('f', vs[0])), C('f', V('_'), V('_'))]))
        else:
            args.append(rng.choice(CONST))
    return C(name, *args)


def expand(ops):
    """abstract operations -> history steps (each followed by a dump)"""
    hist = []
    c = {}
    per_pred = {}
    for i, op in enumerate(ops):
        k = op[0]
        if k == 'assert':
            _, where, via, t = op
            name = 'assert' + where
            c['ops_assert'] = c.get('ops_assert', 0) + 1
            key = (t[1], len(t[2]) if t[0] == 'c' else 0)
            per_pred[key] = per_pred.get(key, 0) + 1
            if key[1] == 0:
                c['zero_arity_ops'] = c.get('zero_arity_ops', 0) + 1
            if via == 'assert_fact':
                hist.append(('assert_fact', t, where == 'z'))
            elif via == 'api_stmt':
                # yp.assertz(t) / yp.asserta(t) as a plain statement of the host program
                hist.append(('api', name, t))
                c['api_statements'] = c.get('api_statements', 0) + 1
            elif via == 'api_query':
                hist.append(('run', name, [t], None))
            elif via == 'compiled':
                hist.append(('load', [(A('op%d' % i), ('call', C(name, t)))], True))
                hist.append(('run', 'op%d' % i, [], None))
            else:
                G = V('G%d' % i)
                hist.append(('load', [(A('op%d' % i), ('and', ('call', C('=', G, t)), ('call', C(name, G))))], True))
                hist.append(('run', 'op%d' % i, [], None))
                c['goal_in_variable_ops'] = c.get('goal_in_variable_ops', 0) + 1
        elif k in ('retract', 'retractall'):
            via, pat = op[1], op[2]
            lim = op[3] if k == 'retract' else None
            c['ops_' + k] = c.get('ops_' + k, 0) + 1
            key = (pat[1], len(pat[2]) if pat[0] == 'c' else 0)
            per_pred[key] = per_pred.get(key, 0) + 1
            if key[1] == 0:
                c['zero_arity_ops'] = c.get('zero_arity_ops', 0) + 1
            if k == 'retract' and lim is not None:
                c['retract_abandoned'] = c.get('retract_abandoned', 0) + 1
            from ..terms import term_vars
            pv = [v for v in term_vars(pat) if v[1] != '_']
            if via == 'api_stmt':
                hist.append(('api', k, pat))
                c['api_statements'] = c.get('api_statements', 0) + 1
            elif via == 'api_query':
                hist.append(('run', k, [pat], lim))
            elif via == 'compiled':
                head = C('op%d' % i, *pv) if pv else A('op%d' % i)
                hist.append(('load', [(head, ('call', C(k, pat)))], True))
                hist.append(('run', 'op%d' % i, list(pv), lim))
            else:
                G = V('G%d' % i)
                head = C('op%d' % i, *pv) if pv else A('op%d' % i)
                hist.append(('load', [(head, ('and', ('call', C('=', G, pat)), ('call', C(k, G))))], True))
                hist.append(('run', 'op%d' % i, list(pv), lim))
                c['goal_in_variable_ops'] = c.get('goal_in_variable_ops', 0) + 1
        elif k == 'query':
            pat = op[1]
            hist.append(('run', pat[1], list(pat[2]) if pat[0] == 'c' else [], None))
            c['ops_query'] = c.get('ops_query', 0) + 1
        elif k == 'clear':
            hist.append(('clear',))
            c['ops_clear'] = c.get('ops_clear', 0) + 1
        if len(ops) > 40 and i + 1 < len(ops) and op[0] == 'assert' and ops[i + 1][0] == 'assert' and i < len(ops) - 31:
            continue          # bulk filling of a large predicate: read back once at the end of the filling
        hist.append(('dump', KEYS))
        c['dumps_compared'] = c.get('dumps_compared', 0) + 1
    nt = any(n >= 3 for n in per_pred.values())
    return hist, c, nt


def gen_ops(rng):
    n = rng.choice([5, 8, 12, 20, 30])
    keys = rng.sample(KEYS, rng.choice([2, 3, 4]))
    ops = []
    if rng.random() < 0.12:
        # a large predicate: size-dependent code paths in the store (thresholds such as 16/32/64/128 facts)
        big = rng.choice([k for k in KEYS if k[1] > 0])
        atom_keys = rng.random() < 0.5
        for j in range(rng.choice([9, 17, 33, 40, 65, 130])):
            # (first argument: a running number, or one of three atoms - a table looked up by an atom key)
            first = rng.choice(CONST[:3]) if atom_keys else I(j)
            ops.append(('assert', rng.choice('zzza'), 'assert_fact', C(big[0], *([first] + [rng.choice(CONST) for _ in range(big[1] - 1)]))))
        keys = [big] + keys
    for i in range(n):
        key = rng.choice(keys)
        r = rng.random()
        if r < 0.42:
            ops.append(('assert', rng.choice('az'), rng.choice(['assert_fact', 'api_query', 'compiled', 'compiled_var', 'api_stmt']),
                        rand_fact(rng, key)))
        elif r < 0.62:
            ops.append(('retract', rng.choice(['api_query', 'compiled', 'compiled_var']), rand_pattern(rng, key, i),
                        rng.choice([None, None, 0, 1, 1, 2])))
        elif r < 0.72:
            ops.append(('retractall', rng.choice(['api_query', 'compiled', 'compiled_var', 'api_stmt']), rand_pattern(rng, key, i)))
        elif r < 0.97:
            ops.append(('query', rand_pattern(rng, key, i)))
        else:
            ops.append(('clear',))
    return ops


def judge(ctx, ops):
    hist, c, nt = expand(ops)
    # operations on predicates that have no facts at that moment are counted from the reference dumps
    d = H.compare_history(ctx['real'], hist, atom_mode=_atom_mode(hist, c))
    r = {'c': c, 'nt': False, 'key': ops}
    if d['status'] == 'discard':
        r['discard'] = d['reason']
        if d['reason'] == 'oracle_disagreement':
            c['oracle_disagreement'] = 1
        return r
    # count operations that hit a predicate without facts
    obs = d['obs']
    last_dump = {}
    si = 0
    for st, o in zip(hist, obs):
        if st[0] == 'run' and st[1] in ('retract', 'retractall') and last_dump:
            pat = st[2][0]
            key = '%s/%d' % (pat[1], len(pat[2]) if pat[0] == 'c' else 0)
            if not last_dump.get(key):
                c['ops_on_unknown_predicate'] = c.get('ops_on_unknown_predicate', 0) + 1
        if st[0] == 'dump':
            last_dump = o
    if d['status'] == 'violation':
        r['v'] = {'kind': d['kind'], 'detail': d['detail'],
                  'witness': {'ops': ops, 'history': H.normalise(hist)}}
        r['nt'] = True
        return r
    r['nt'] = nt
    if nt:
        r['sample'] = {'ops': [describe(o) for o in ops[:8]], 'n_ops': len(ops),
                       'final_store': {k: v for k, v in obs[-1].items() if v}}
    return r


def describe(op):
    if op[0] == 'assert':
        return 'assert%s[%s] %s' % (op[1], op[2], rterm(op[3]))
    if op[0] == 'retract':
        return 'retract[%s] %s %s' % (op[1], rterm(op[2]), 'exhaust' if op[3] is None else 'abandon after %d' % op[3])
    if op[0] == 'retractall':
        return 'retractall[%s] %s' % (op[1], rterm(op[2]))
    if op[0] == 'query':
        return 'query %s' % rterm(op[1])
    return 'clear'


def run_case(ctx, seed, idx, tier):
    if idx < ctx['exh']:
        a = alphabet()
        n = len(a)
        rest = idx
        length = 1
        while rest >= n ** length:
            rest -= n ** length
            length += 1
        ops = []
        for _ in range(length):
            ops.append(a[rest % n])
            rest //= n
        r = judge(ctx, ops)
        r['c']['exhaustive_histories'] = 1
        return r
    rng = random.Random((seed * 1000003 + idx) * 7 + 7)
    return judge(ctx, gen_ops(rng))


def corpus():
    X = V('X')
    G = V('G')
    return [
        # the pinned-tree defects named in the property: F03, F04, F05
        {'ops': [('assert', 'z', 'assert_fact', A('p')), ('assert', 'z', 'compiled', A('p')), ('retract', 'compiled', A('p'), 1),
                 ('retractall', 'api_query', A('p'))]},
        {'ops': [('retract', 'api_query', C('p', X), None), ('retractall', 'compiled', C('q', V('_')))]},
        {'ops': [('assert', 'z', 'compiled_var', C('p', A('a'))), ('assert', 'a', 'compiled_var', C('p', A('b'))),
                 ('retract', 'compiled_var', C('p', X), None)]},
        {'ops': [('assert', 'z', 'api_query', C('p', A('a'), A('b'))), ('assert', 'z', 'assert_fact', C('p', A('c'), A('b'))),
                 ('assert', 'a', 'compiled', C('p', A('a'), A('a'))), ('retract', 'compiled', C('p', X, A('b')), 1),
                 ('query', C('p', X, X)), ('clear',), ('query', C('p', X, V('Y')))]},
    ]


def run_corpus(ctx, item):
    return judge(ctx, item['ops'])


def replay(ctx, w):
    from ..diff import totuple
    ops = [totuple(o) for o in w['ops']]
    return judge(ctx, ops)


def _atom_mode(hist, c):
    """where the host program's atom objects come from (same terms in every mode): made at the time of use, made once
    and held (also across clear()), or made by another engine"""
    import hashlib
    k = int(hashlib.md5(repr(hist).encode('utf8', 'backslashreplace')).hexdigest(), 16) % 10
    mode = 'fresh' if k < 4 else ('held' if k < 6 else ('other' if k < 8 else 'mixed'))
    c['atoms_' + mode] = 1
    return mode
