"""C19 - the yldpc command line equals the library; debug options only add comments."""
import glob
import os
import random
import re
import shutil
import subprocess
import sys
import tempfile
from .. import gen, gramgen
from ..real import Real
from ..terms import rprogram, V, A, C
from ..observe import REPO, Ctx
from . import c09, c16

PROPERTY = 'C19'
LEVEL = 'exploration'
RULE = ('generated programs (stratified, control bodies, meta-calls, facts whose atoms contain embedded newlines, quotes, '
        'non-ASCII text and control characters) and the repository sample files, written to 1-3 UTF-8 source files; '
        '`python -m yldprolog.compiler` of the working tree is run as a subprocess with ALL 16 combinations of '
        '-d/--debug-parser/--debug-generator/--debug-filename, with output to stdout and to -o (file pre-filled with '
        'junk), input from files and from standard input (-), one and several sources. Checked: exit status 0; output '
        'with lines starting with # removed equals the concatenation of compile_prolog_from_file(src) (also with # lines '
        'removed); without debug flags the output is byte-identical to the library; the output is loadable Python. For a '
        'source outside the grammar (single-edit corruption): non-zero exit status and stderr naming the file and a '
        'line:column. Non-trivial = program containing an atom with a line break or non-ASCII text, or run with a debug '
        'flag; distinct = hash of (sources, flags, io mode)')
ASSUMPTIONS = ['comment lines are the lines starting with "#"', 'subprocesses run with LANG=C.UTF-8 (stdout encoding UTF-8)']
RULE_ADDED = (' Added after the rounds of independently written changes (DESIGN.md 12.2): ' +
              'sources named twice; PYTHONHASHSEED varied per run; 64 KiB - 1 MiB sources through files and standard input; named pipes and /dev/stdin; lines split as Python splits them; directives with `_` between the clauses; decomposed characters; sources that are not valid UTF-8 (must exit non-zero).')
RULE = RULE + RULE_ADDED

FLAGS = ['-d', '--debug-parser', '--debug-generator', '--debug-filename']


def plan(tier, seed):
    if tier == 'quick':
        return {'n': 48, 'deadline': 150, 'case_timeout': 300,
                'floor': {'invalid_utf8_source_runs': 1, 'distinct_nontrivial': 500, 'cli_runs': 800, 'flag_sets_seen': 16, 'stdin_runs': 80, 'outfile_runs': 200,
                          'multi_source_runs': 150, 'failing_source_runs': 80, 'newline_or_nonascii_programs': 15}}
    return {'n': 700, 'deadline': 570, 'case_timeout': 300,
            'floor': {'invalid_utf8_source_runs': 1, 'distinct_nontrivial': 8000, 'cli_runs': 12000, 'flag_sets_seen': 16, 'stdin_runs': 1200, 'outfile_runs': 3000,
                      'multi_source_runs': 2500, 'failing_source_runs': 1200, 'newline_or_nonascii_programs': 250}}


def setup(tier, seed):
    real = Real(clock=False)
    samples = []
    for f in sorted(glob.glob(os.path.join(REPO, 'compiler/test/*.prolog')) + glob.glob(os.path.join(REPO, 'tests/data/*.prolog'))):
        try:
            samples.append(open(f, encoding='utf8').read())
        except Exception:
            pass
    return {'real': real, 'samples': samples, 'flagsets': set(), 'tier': tier}


def finish(ctx):
    return {'flag_sets_seen_by_this_worker': len(ctx['flagsets'])}


def gen_source(rng, ctx):
    r = rng.random()
    hostile = False
    if r < 0.35:
        c = {}
        lines = []
        for i in range(rng.choice([1, 2, 3])):
            lit = c16.gen_literal(rng, rng.choice([0, 1, 2]), c)
            lines.append('lit%d(%s).' % (i, c16.render(lit)))
        text = '\n'.join(lines) + '\n'
        hostile = any(ord(ch) > 127 for ch in text) or '\n' in text.strip('\n').replace('.\nlit', '')
        hostile = hostile or c.get('atoms_with_quote_or_newline', 0) > 0 or c.get('non_ascii_atoms', 0) > 0
    elif r < 0.5:
        cl, _ = gen.gen_prog_stratified(rng)
        text = rprogram(cl, rng=rng)
    elif r < 0.7:
        cl, _, _ = gen.gen_control_case(rng)
        text = rprogram(cl, rng=rng)
    elif r < 0.8:
        cl, _, _, _ = c09.gen_case(rng)
        text = rprogram(cl)
    elif r < 0.9 and ctx['samples']:
        text = rng.choice(ctx['samples'])
        hostile = any(ord(ch) > 127 for ch in text) or "\n" in text
    elif r < 0.95:
        text = "book('The magic\nof embedded\nnewlines', 'é', X) :- X = 'ü\n%', \\+ fail.\n"
        hostile = True
    else:
        # atoms that start with a letter (printed verbatim by the debug output) and contain every character
        # that ends a line somewhere: CR, CR LF, VT, FF, FS, GS, RS, NEL, LS, PS
        seps = ['\r', '\r\n', '\x0b', '\x0c', '\x1c', '\x1d', '\x1e', '\x85', '\u2028', '\u2029', '\n']
        a = ''.join(rng.choice(['red', 'x = 1', 'import os', ')', 'é']) + rng.choice(seps) for _ in range(rng.choice([1, 2, 3])))
        text = "colour('a%sz').\nt(X) :- colour(X), X \\= 'b%sq'.\n" % (a, rng.choice(seps))
        hostile = True
    if rng.random() < 0.3 and text.endswith('\n') and '\n' not in text.strip('\n').replace('.\n', ''):
        # directives between the clauses (they are parsed, not compiled): with anonymous and named variables,
        # quoted atoms, lists - whatever walks them must not influence the code of the clauses
        DIRS = [":- initialization(main(_, _)).", ":- import('', [sub/1]).", ":- dynamic(foo/1).", ":- set(_, X, [_|X]).",
                ":- bar(_, 'quoted atom', _).", ":- ensure_loaded(library(lists)).", ":- p(_, f(_, _), [_]).", ":- r(_, _, _)."]
        lines = text.split('\n')
        for _ in range(rng.choice([1, 1, 2, 3])):
            lines.insert(rng.randrange(len(lines)), rng.choice(DIRS))
        text = '\n'.join(lines)
    return text, hostile


_PYLINES = re.compile(r'\r\n|\r|\n')


def strip_comments(s):
    # lines as Python's tokenizer sees them: LF, CR LF and a lone CR all end a line (and so a comment)
    return '\n'.join(l for l in _PYLINES.split(s) if not l.startswith('#'))


def run_cli(tmp, flags, srcs, mode_out, mode_in, stdin_text=None, hashseed='0'):
    env = dict(os.environ)
    env['PYTHONPATH'] = os.path.join(REPO, 'src')
    env['LANG'] = 'C.UTF-8'
    env['PYTHONHASHSEED'] = hashseed
    args = [sys.executable, '-m', 'yldprolog.compiler'] + list(flags)
    outpath = None
    if mode_out == 'file':
        outpath = os.path.join(tmp, 'out.py')
        with open(outpath, 'w', encoding='utf8') as f:
            # (longer than any output of this case: whatever is left of it afterwards shows)
            f.write('JUNK that must be overwritten\n' * 40000)
        args += ['-o', outpath]
    args += srcs
    p = subprocess.run(args, env=env, input=(stdin_text.encode('utf8') if stdin_text is not None else None),
                       capture_output=True, timeout=120, cwd=tmp)
    out = p.stdout.decode('utf8', 'replace')
    if mode_out == 'file':
        try:
            with open(outpath, encoding='utf8') as f:
                out = f.read()
        except Exception as e:
            out = 'CANNOT READ OUTPUT FILE: %r' % e
    return p.returncode, out, p.stderr.decode('utf8', 'replace'), p.stdout.decode('utf8', 'replace')


def case_big_input(ctx, rng, c):
    """large sources with dense multi-byte text (sizes around 64 KiB / 128 KiB / 1 MiB block boundaries), given as a file
    and on standard input: the output must be the library's for that text"""
    real = ctx['real']
    tmp = tempfile.mkdtemp(prefix='ypv-c19b-')
    try:
        size = rng.choice([65536, 131072, 1048576 if (rng.random() < 0.2 and ctx.get('tier') == 'thorough') else 65536])
        ch = rng.choice(['щ', 'é', '丙', '😀'])
        pad = rng.choice(['', ' ', '  ', '   '])
        nchar = size // len(ch.encode('utf8')) + 50
        text = "%sbig('%s').\nsmall(a).\n" % (pad, ch * nchar)
        path = os.path.join(tmp, 'big.prolog')
        with open(path, 'w', encoding='utf8', newline='') as f:
            f.write(text)
        want = real.Cm.compile_prolog_from_file(path, Ctx)
        for mi in ('stdin', 'files'):
            for mo in ('stdout', 'file'):
                rc, out, err, raw = run_cli(tmp, [], ['-'] if mi == 'stdin' else [path], mo, mi, text if mi == 'stdin' else None,
                                            hashseed=str(rng.choice([0, 1, 2])))
                c['cli_runs'] = c.get('cli_runs', 0) + 1
                c['big_input_runs'] = c.get('big_input_runs', 0) + 1
                if mi == 'stdin':
                    c['stdin_runs'] = c.get('stdin_runs', 0) + 1
                if rc != 0 or out != want:
                    i = 0
                    while i < min(len(out), len(want)) and out[i] == want[i]:
                        i += 1
                    return {'c': c, 'nt': True, 'key': None,
                            'v': {'kind': 'output_differs_from_library_for_large_input', 'detail': {'returncode': rc, 'first_difference_at_char': i,
                                  'cli': out[i:i + 20], 'library': want[i:i + 20], 'stderr': err[-200:], 'input': mi, 'output': mo},
                                  'witness': {'source_bytes': len(text.encode('utf8')), 'character': ch, 'padding': len(pad), 'input': mi, 'output': mo}}}
    finally:
        shutil.rmtree(tmp, ignore_errors=True)
    return {'c': c, 'nt': True, 'key': ('big', size, ch, pad)}


def case_long_disjunction(ctx, rng, c):
    """one clause whose body is a chain of hundreds of alternatives (a generated lookup predicate), compiled by the
    command line without and with each debug option: either every run compiles it to the library's code, or - when
    the library itself cannot (recursion depth) - every run fails. How much stack a compilation needs must not
    depend on the debug options."""
    real = ctx['real']
    n = rng.choice([200, 300, 450, 520, 700])         # (not near 370, where the depth of the caller decides)
    text = 'lookup(X) :- %s.\nother(a).\n' % ' ; '.join('X = c%d' % i for i in range(n))
    tmp = tempfile.mkdtemp(prefix='ypv-c19d-')
    try:
        path = os.path.join(tmp, 'lookup.prolog')
        with open(path, 'w', encoding='utf8', newline='') as f:
            f.write(text)
        try:
            want = real.Cm.compile_prolog_from_file(path, Ctx)
        except RecursionError:
            want = None
        except Exception as e:
            return {'c': c, 'nt': False, 'key': None, 'discard': 'library_rejects:' + type(e).__name__}
        for fl in ([], ['--debug-parser'], ['--debug-generator'], ['-d'], ['--debug-filename']):
            try:
                rc, out, err, raw = run_cli(tmp, fl, [path], 'stdout', 'files')
            except subprocess.TimeoutExpired:
                continue
            c['cli_runs'] = c.get('cli_runs', 0) + 1
            c['long_disjunction_runs'] = c.get('long_disjunction_runs', 0) + 1
            if want is None and rc == 0:
                continue        # (the command line may have a little more stack than this process: not judged)
            if want is not None and (rc != 0 or strip_comments(out) != strip_comments(want)):
                return {'c': c, 'nt': True, 'key': None,
                        'v': {'kind': 'debug_options_change_whether_a_large_clause_compiles', 'detail': {'alternatives': n, 'flags': fl, 'returncode': rc, 'stderr': err[-200:]},
                              'witness': {'alternatives': n, 'flags': fl, 'sources': ['lookup(X) :- X = c0 ; X = c1 ; ... (%d alternatives)' % n]}}}
    finally:
        shutil.rmtree(tmp, ignore_errors=True)
    return {'c': c, 'nt': True, 'key': ('long_disjunction', n)}


def run_case(ctx, seed, idx, tier):
    rng = random.Random((seed * 1000003 + idx) * 7 + 19)
    real = ctx['real']
    c = {}
    if idx % 12 == 11:
        return case_big_input(ctx, rng, c)
    if idx % 12 == 5:
        return case_long_disjunction(ctx, rng, c)
    from ..harness import h64
    keys = []
    tmp = tempfile.mkdtemp(prefix='ypv-c19-')
    try:
        nsrc = rng.choice([1, 1, 2, 3])
        texts = []
        hostile = False
        for i in range(nsrc):
            t, h = gen_source(rng, ctx)
            texts.append(t)
            hostile = hostile or h
        paths = []
        for i, t in enumerate(texts):
            pth = os.path.join(tmp, 'src%d.prolog' % i)
            with open(pth, 'w', encoding='utf8', newline='') as f:
                f.write(t)
            paths.append(pth)
        if hostile:
            c['newline_or_nonascii_programs'] = 1
        # library expectation
        try:
            expected = [real.Cm.compile_prolog_from_file(p, Ctx) for p in paths]
        except Exception as e:
            return {'c': c, 'nt': False, 'key': None, 'discard': 'library_rejects:' + type(e).__name__}
        w0 = {'sources': texts}

        def viol(kind, detail, flags, mo, mi):
            return {'c': c, 'nt': True, 'key': None, 'multi_keys': keys,
                    'v': {'kind': kind, 'detail': detail, 'witness': dict(w0, flags=list(flags), output=mo, input=mi)}}
        runs = []
        mode0 = rng.choice([('stdout', 'files'), ('file', 'files')])
        for k in range(16):
            fl = [FLAGS[j] for j in range(4) if k >> j & 1]
            runs.append((fl, mode0[0], mode0[1], paths))
        for mo, mi in [('stdout', 'files'), ('file', 'files'), ('stdout', 'stdin'), ('file', 'stdin')]:
            for _ in range(2):
                k = rng.randrange(16)
                fl = [FLAGS[j] for j in range(4) if k >> j & 1]
                runs.append((fl, mo, mi, paths))
        # the same source named more than once must be compiled at every position
        if rng.random() < 0.7:
            k = rng.randrange(16)
            fl = [FLAGS[j] for j in range(4) if k >> j & 1]
            dup = list(paths) + [rng.choice(paths)]
            if rng.random() < 0.5:
                dup = [paths[-1]] + dup
            runs.append((fl, rng.choice(['stdout', 'file']), 'files', dup))
        for fl, mo, mi, ps in runs:
            if len(ps) != len(set(ps)):
                c['duplicate_source_runs'] = c.get('duplicate_source_runs', 0) + 1
            if mi == 'stdin':
                # standard input replaces the first source
                srcs = ['-'] + ps[1:]
                stdin_text = texts[0]
                c['stdin_runs'] = c.get('stdin_runs', 0) + 1
            else:
                srcs = list(ps)
                stdin_text = None
            if mo == 'file':
                c['outfile_runs'] = c.get('outfile_runs', 0) + 1
            if len(ps) > 1:
                c['multi_source_runs'] = c.get('multi_source_runs', 0) + 1
            try:
                rc, out, err, raw_stdout = run_cli(tmp, fl, srcs, mo, mi, stdin_text, hashseed=str(rng.choice([0, 1, 2, 3, 7, 11, 12345])))
            except subprocess.TimeoutExpired:
                return {'c': c, 'nt': False, 'key': None, 'discard': 'cli_timeout'}
            c['cli_runs'] = c.get('cli_runs', 0) + 1
            ctx['flagsets'].add(tuple(fl))
            c['flagset_' + ('+'.join(f.strip('-') for f in fl) or 'none')] = 1
            keys.append(h64((texts, fl, mo, mi)))
            if rc != 0:
                return viol('nonzero_exit_for_valid_source', {'returncode': rc, 'stderr': err[-300:]}, fl, mo, mi)
            want = ''.join(expected[paths.index(p_)] for p_ in ps)
            if strip_comments(out) != strip_comments(want):
                a, b = strip_comments(out).split('\n'), strip_comments(want).split('\n')
                i = 0
                while i < min(len(a), len(b)) and a[i] == b[i]:
                    i += 1
                return viol('output_differs_from_library_modulo_comments',
                            {'first_differing_line': i, 'cli': a[i:i + 2], 'library': b[i:i + 2]}, fl, mo, mi)
            if not fl and out != want:
                return viol('output_not_byte_identical_without_debug', {'len_cli': len(out), 'len_library': len(want)}, fl, mo, mi)
            if mo == 'file' and raw_stdout.strip():
                return viol('stdout_not_empty_with_outfile', {'stdout': raw_stdout[:200]}, fl, mo, mi)
            try:
                compile(out, '<cli-output>', 'exec')
            except (SyntaxError, ValueError) as e:
                return viol('cli_output_not_loadable_python', {'error': str(e)[:200]}, fl, mo, mi)
        # sources that are not regular files: a named pipe, /dev/stdin
        if rng.random() < 0.5:
            import threading
            fifo = os.path.join(tmp, 'pipe.prolog')
            os.mkfifo(fifo)

            def feed():
                try:
                    with open(fifo, 'w', encoding='utf8', newline='') as f:
                        f.write(texts[0])
                except OSError:
                    pass
            th = threading.Thread(target=feed, daemon=True)
            th.start()
            k = rng.randrange(16)
            fl = [FLAGS[j] for j in range(4) if k >> j & 1]
            mo = rng.choice(['stdout', 'file'])
            try:
                rc, out, err, raw = run_cli(tmp, fl, [fifo] + paths[1:], mo, 'files')
            except subprocess.TimeoutExpired:
                rc, out, err = None, '', 'timeout'
            th.join(5)
            c['cli_runs'] = c.get('cli_runs', 0) + 1
            c['named_pipe_sources'] = c.get('named_pipe_sources', 0) + 1
            if rc is not None:
                want = ''.join(expected)
                if rc != 0 or strip_comments(out) != strip_comments(want):
                    return viol('output_differs_from_library_for_a_named_pipe_source', {'returncode': rc, 'cli_chars': len(out), 'library_chars': len(want),
                                                                                        'stderr': err[-200:]}, fl, mo, 'fifo')
        else:
            k = rng.randrange(16)
            fl = [FLAGS[j] for j in range(4) if k >> j & 1]
            mo = rng.choice(['stdout', 'file'])
            try:
                rc, out, err, raw = run_cli(tmp, fl, ['/dev/stdin'] + paths[1:], mo, 'stdin', texts[0])
                c['cli_runs'] = c.get('cli_runs', 0) + 1
                c['dev_stdin_sources'] = c.get('dev_stdin_sources', 0) + 1
                want = ''.join(expected)
                if rc != 0 or strip_comments(out) != strip_comments(want):
                    return viol('output_differs_from_library_for_dev_stdin', {'returncode': rc, 'cli_chars': len(out), 'library_chars': len(want),
                                                                              'stderr': err[-200:]}, fl, mo, '/dev/stdin')
            except subprocess.TimeoutExpired:
                pass
        # a source that does not compile
        for _ in range(2):
            base = texts[0]
            toks_bad = None
            for attempt in range(20):
                pos = rng.randrange(len(base) + 1)
                bad = base[:pos] + rng.choice(['#', ')', ' :- :- ', '(', "'", ',,', '|', '$', ' X Y ']) + base[pos:]
                from .. import recog
                if recog.analyse(bad)['accept'] is False:
                    toks_bad = bad
                    break
            if toks_bad is None:
                continue
            bpath = os.path.join(tmp, 'broken.prolog')
            with open(bpath, 'w', encoding='utf8', newline='') as f:
                f.write(toks_bad)
            k = rng.randrange(16)
            fl = [FLAGS[j] for j in range(4) if k >> j & 1]
            order = [bpath] + paths[1:] if rng.random() < 0.5 else paths[1:] + [bpath]
            mo = rng.choice(['stdout', 'file'])
            try:
                rc, out, err, raw = run_cli(tmp, fl, order, mo, 'files')
            except subprocess.TimeoutExpired:
                continue
            c['cli_runs'] = c.get('cli_runs', 0) + 1
            c['failing_source_runs'] = c.get('failing_source_runs', 0) + 1
            w0b = dict(w0, broken=toks_bad)
            if rc == 0:
                return {'c': c, 'nt': True, 'key': None, 'multi_keys': keys,
                        'v': {'kind': 'exit_zero_for_source_outside_grammar', 'detail': {'stderr': err[-200:]},
                              'witness': dict(w0b, flags=fl, output=mo)}}
            if 'broken.prolog' not in err or not re.search(r':\d+:\d+', err):
                return {'c': c, 'nt': True, 'key': None, 'multi_keys': keys,
                        'v': {'kind': 'syntax_error_without_file_and_position', 'detail': {'stderr': err[-400:]},
                              'witness': dict(w0b, flags=fl, output=mo)}}
        # a source that is not text at all: bytes that are not valid UTF-8 (a Latin-1 file, a truncated sequence).
        # The library raises for such a file, so it "does not compile": the command must exit non-zero, through a
        # file argument and through standard input
        if rng.random() < 0.5:
            raw0 = texts[0].encode('utf8')
            posc = rng.randrange(len(texts[0]) + 1)
            cut = len(texts[0][:posc].encode('utf8'))
            data = raw0[:cut] + rng.choice([b'\xff', b'\xa0', b'\xe9', b'\xc3', b'\xe2\x82', b'\xfc\xdf']) + raw0[cut:]
            try:
                data.decode('utf8')
                data = None
            except UnicodeDecodeError:
                pass
            if data is not None:
                bpath = os.path.join(tmp, 'latin1.prolog')
                with open(bpath, 'wb') as f:
                    f.write(data)
                # (judged without asking the library: bytes that are not UTF-8 are no sentence of the grammar, C10)
                if True:
                    for mi in ('files', 'stdin'):
                        args = [bpath] if mi == 'files' else ['-']
                        env = dict(os.environ, PYTHONPATH=os.path.join(REPO, 'src'), LANG='C.UTF-8', PYTHONHASHSEED='0')
                        try:
                            p = subprocess.run([sys.executable, '-m', 'yldprolog.compiler'] + args, env=env, input=(data if mi == 'stdin' else None),
                                               capture_output=True, timeout=120, cwd=tmp)
                        except subprocess.TimeoutExpired:
                            continue
                        c['cli_runs'] = c.get('cli_runs', 0) + 1
                        c['invalid_utf8_source_runs'] = c.get('invalid_utf8_source_runs', 0) + 1
                        if p.returncode == 0:
                            return {'c': c, 'nt': True, 'key': None, 'multi_keys': keys,
                                    'v': {'kind': 'exit_zero_for_source_that_is_not_valid_utf8', 'detail': {'input': mi, 'stdout': p.stdout.decode('utf8', 'replace')[:200]},
                                          'witness': dict(w0, bytes_inserted_at=cut, input=mi)}}
    finally:
        shutil.rmtree(tmp, ignore_errors=True)
    return {'c': c, 'nt': False, 'key': None, 'multi_keys': keys,
            'sample': {'sources': [t[:120] for t in texts], 'runs': c.get('cli_runs', 0)}}


def replay(ctx, w):
    return {'v': None, 'info': 'rerun the tier with the same VERIF_SEED', 'witness': w}
