"""C18 - compilation is a deterministic function of the source text."""
import glob
import hashlib
import io
import json
import os
import random
import subprocess
import sys
import tempfile
from .. import gen, gramgen
from ..terms import rprogram, V, A, C
from ..observe import REPO
from . import c09

PROPERTY = 'C18'
LEVEL = 'exploration'
RULE = ('batches of generated programs (stratified programs, control bodies with several if-then-else, meta-call '
        'bodies, grammar-derived text; weighted towards clauses with >= 2 fresh variables in head and body and several '
        '`_`) plus every sample file of the repository. Each batch is compiled in separate interpreter processes with '
        'PYTHONHASHSEED 0, 1, 2, 3 and random, in forward, reversed and shuffled order, once and twice in a row, and '
        'with each of 4 option objects (debug flags writing to a private stream); the SHA-256 of the bytes returned '
        'by compile_prolog_from_string for a given (text, options) must be identical in every process and at every '
        'position in the compilation history. Non-trivial = program with a clause that declares >= 2 fresh variables; '
        'distinct = hash of the program text')
ASSUMPTIONS = ['byte equality of the returned text is the oracle', 'debug output written to the options\' stream is not part '
               'of the returned value and is not compared']
RULE_ADDED = (' Added after the rounds of independently written changes (DESIGN.md 12.2): ' +
              "file-API compilations interleaved in the history, also after a same-size rewrite with the old modification time; option objects inheriting from the library's default class; pairs of programs with confusable ground terms; wide relational rules with 8-20 head and 10-60 body variables.")
RULE = RULE + RULE_ADDED

WORKER = r'''
import sys, json, hashlib, io, random, re
sys.path.insert(0, sys.argv[1])
from yldprolog.compiler import compile_prolog_from_string
texts = json.load(open(sys.argv[2]))
order = sys.argv[3]
idx = list(range(len(texts)))
if order == 'rev':
    idx.reverse()
elif order == 'shuffle':
    random.Random(7).shuffle(idx)
elif order == 'twice':
    idx = [i for i in idx for _ in (0, 1)]
import os, tempfile
from yldprolog.compiler import compile_prolog_from_file, CompilerContext
def opts(k):
    if k == 8:
        # options that inherit everything they do not set from the library's default options class
        class P(CompilerContext):
            debug_filename = True
            outf = io.StringIO()
        return P
    if k == 9:
        o = CompilerContext()
        o.debug_filename = True
        o.outf = io.StringIO()
        return o
    class O:
        debug_filename = bool(k & 1)
        debug_parser = bool(k & 2)
        debug_generator = bool(k & 4)
        current_source_file = 'src.prolog'
        outf = io.StringIO()
    return O
tmpdir = tempfile.mkdtemp(prefix='ypv-c18w-')
out = {}
for n, i in enumerate(idx):
    if order in ('fwd', 'twice', 'shuffle') and n % 2 == 0:
        # the compilation history also contains compilations through the file API with the default options
        fp = os.path.join(tmpdir, 'hist%d.prolog' % (n % 3))
        open(fp, 'w', encoding='utf8', newline='').write(texts[i])
        try:
            h = hashlib.sha256(compile_prolog_from_file(fp).encode('utf8', 'backslashreplace')).hexdigest()
        except RecursionError:
            h = 'EXC:RecursionError'
        except Exception as e:
            h = 'EXC:' + type(e).__name__
        out.setdefault('%d/file' % i, []).append(h)
        # release 2 of the same file: other text of exactly the same size, modification time preserved
        # (cp -p, rsync -t, tar, coarse timestamps): the file API must compile what the file holds NOW
        m = re.search(r'[a-z][a-z0-9_]*', texts[i])
        if m:
            last = m.end() - 1
            t2 = texts[i][:last] + ('q' if texts[i][last] != 'q' else 'r') + texts[i][last + 1:]
            st = os.stat(fp)
            open(fp, 'w', encoding='utf8', newline='').write(t2)
            os.utime(fp, ns=(st.st_atime_ns, st.st_mtime_ns))
            for key, fn in (('samefile', lambda: compile_prolog_from_file(fp)), ('samestr', lambda: compile_prolog_from_string(t2, opts(0)))):
                try:
                    h = hashlib.sha256(fn().encode('utf8', 'backslashreplace')).hexdigest()
                except RecursionError:
                    h = 'EXC:RecursionError'
                except Exception as e:
                    h = 'EXC:' + type(e).__name__
                out.setdefault('%d/%s' % (i, key), []).append(h)
    for k in (0, 1, 4, 7, 8, 9):
        try:
            h = hashlib.sha256(compile_prolog_from_string(texts[i], opts(k)).encode('utf8', 'backslashreplace')).hexdigest()
        except RecursionError:
            h = 'EXC:RecursionError'
        except Exception as e:
            h = 'EXC:' + type(e).__name__
        out.setdefault('%d/%d' % (i, k), []).append(h)
for fn in os.listdir(tmpdir):
    os.unlink(os.path.join(tmpdir, fn))
os.rmdir(tmpdir)
print(json.dumps(out))
'''

CONFIGS = [('0', 'fwd'), ('1', 'fwd'), ('2', 'rev'), ('3', 'shuffle'), ('random', 'fwd'), ('0', 'twice'), ('4242', 'shuffle')]


def plan(tier, seed):
    if tier == 'quick':
        return {'n': 24, 'deadline': 150, 'case_timeout': 200,
                'floor': {'same_size_same_mtime_rewrites': 1, 'distinct_nontrivial': 200, 'programs': 600, 'process_runs': 150, 'hashes_compared': 10000}}
    return {'n': 640, 'deadline': 560, 'case_timeout': 200,
            'floor': {'same_size_same_mtime_rewrites': 1, 'distinct_nontrivial': 4000, 'programs': 12000, 'process_runs': 3000, 'hashes_compared': 200000}}


def setup(tier, seed):
    samples = []
    for f in sorted(glob.glob(os.path.join(REPO, 'compiler/test/*.prolog')) + glob.glob(os.path.join(REPO, 'tests/data/*.prolog'))):
        try:
            samples.append(open(f, encoding='utf8').read())
        except Exception:
            pass
    return {'samples': samples}


def fresh_var_clause(rng):
    """clauses with many fresh variables in head and body, several `_`, several if-then-else"""
    names = ['Alpha', 'Beta', 'Gamma', 'Delta', 'Eps', 'Zeta', 'Eta', 'Theta', 'X', 'Y', 'Z', 'A1', 'B2', 'Long_name_1', '_U', '_']
    hv = [V(n) for n in rng.sample(names, rng.choice([2, 3, 4]))]
    bv = [V(n) for n in rng.sample(names, rng.choice([2, 3, 5, 7]))]
    head = C('p', C('f', *hv[:2]), *hv[2:])
    goals = []
    for _ in range(rng.choice([1, 2, 4])):
        goals.append(('call', C(rng.choice(['q', 'r', 's']), *rng.sample(bv, min(len(bv), rng.choice([1, 2, 3]))))))
    if rng.random() < 0.5:
        goals.append(('or', ('then', ('call', C('q', rng.choice(bv))), ('call', C('r', rng.choice(bv), V('_')))), ('call', C('s', V('_'), V('_')))))
    if rng.random() < 0.3:
        goals.append(('or', ('then', ('call', C('t', rng.choice(hv))), ('true',)), ('not', ('call', C('q', rng.choice(bv))))))
    return (head, gen.conj(goals))


def wide_clause(rng):
    """wide relational rules: a head with 8-20 plain variables and a body joining several wide relations, which adds
    10-60 further variables (whatever is computed per clause over 'all variables x bound variables' gets big)"""
    nh = rng.choice([8, 12, 16, 20])
    hv = [V('H%d' % i) for i in range(nh)]
    goals = []
    k = 0
    for g in range(rng.choice([2, 4, 6])):
        cols = []
        for _ in range(rng.choice([4, 8, 10])):
            if rng.random() < 0.3:
                cols.append(rng.choice(hv))
            elif rng.random() < 0.1:
                cols.append(V('_'))
            else:
                k += 1
                cols.append(V('%s%d' % (rng.choice(['N', 'Tmp', 'Col', '_G']), k)))
        goals.append(('call', C('rel%d' % g, *cols)))
    return (C('wide', *hv), gen.conj(goals))


def gen_text(rng):
    r = rng.random()
    if r < 0.1:
        return rprogram([wide_clause(rng) for _ in range(rng.choice([1, 2]))] + [fresh_var_clause(rng)]), True
    if r < 0.45:
        return rprogram([fresh_var_clause(rng) for _ in range(rng.choice([1, 2, 3]))]), True
    if r < 0.6:
        cl, _ = gen.gen_prog_stratified(rng)
        return rprogram(cl, rng=rng), any(len(set(v for v in _vars(h, b))) >= 2 for h, b in cl)
    if r < 0.75:
        cl, _, _ = gen.gen_control_case(rng)
        return rprogram(cl, rng=rng), True
    if r < 0.9:
        cl, _, vs, _ = c09.gen_case(rng)
        return rprogram(cl), len(vs) >= 2
    return gramgen.join(rng, gramgen.program(rng)), False


def _vars(h, b):
    from ..terms import term_vars
    out = list(term_vars(h))

    def walk(x):
        if x[0] == 'call':
            term_vars(x[1], out)
        elif x[0] in ('and', 'or', 'then'):
            walk(x[1])
            walk(x[2])
        elif x[0] == 'not':
            walk(x[1])
    walk(b)
    return out


def run_case(ctx, seed, idx, tier):
    rng = random.Random((seed * 1000003 + idx) * 7 + 18)
    texts = []
    nts = []
    if idx == 0:
        for t in ctx['samples']:
            texts.append(t)
            nts.append(True)
    for _ in range(21):
        t, nt = gen_text(rng)
        texts.append(t)
        nts.append(nt)
    # pairs of programs whose ground terms print alike but differ in structure: a process-wide cache keyed by the printed
    # form would make the output of one depend on whether the other was compiled before
    pairs = [("name('smith,john').\nq :- name('smith,john').\n", "name(smith,john).\nq :- name(smith,john).\n"),
             ("f('g(a)').\nq(X) :- X = f('g(a)').\n", "f(g(a)).\nq(X) :- X = f(g(a)).\n"),
             ("f(a,'b,c').\n", "f(a,b,c).\n"), ("p(['a,b']).\n", "p([a,b]).\n"), ("p(f(x1),_).\n", "p(f(_),x1).\n"),
             ("t('X', f('Y')).\n", "t(X, f(Y)).\n")]
    pa, pb = rng.choice(pairs)
    for t in ((pa, pb) if rng.random() < 0.5 else (pb, pa)):
        texts.insert(rng.randrange(len(texts) + 1), t)
        nts.append(True)
    nts = nts[:len(texts)]
    c = {'programs': len(texts)}
    tmp = tempfile.mkdtemp(prefix='ypv-c18-')
    results = {}
    try:
        path = os.path.join(tmp, 'texts.json')
        with open(path, 'w') as f:
            json.dump(texts, f)
        for hs, order in CONFIGS:
            env = dict(os.environ)
            env['PYTHONHASHSEED'] = hs
            env.pop('PYTHONPATH', None)
            try:
                p = subprocess.run([sys.executable, '-c', WORKER, os.path.join(REPO, 'src'), path, order],
                                   env=env, capture_output=True, text=True, timeout=150)
            except subprocess.TimeoutExpired:
                return {'c': c, 'nt': False, 'key': None, 'discard': 'subprocess_timeout'}
            if p.returncode != 0:
                return {'c': c, 'nt': True, 'key': None,
                        'v': {'kind': 'worker_failed', 'detail': p.stderr[-400:], 'witness': {'config': [hs, order]}}}
            results[(hs, order)] = json.loads(p.stdout.strip().split('\n')[-1])
            c['process_runs'] = c.get('process_runs', 0) + 1
    finally:
        for fn in os.listdir(tmp):
            os.unlink(os.path.join(tmp, fn))
        os.rmdir(tmp)
    from ..harness import h64
    keys = []
    v = None
    ref = results[CONFIGS[0]]
    allkeys = set()
    for cfg in CONFIGS:
        allkeys.update(results[cfg])
    for key in sorted(allkeys):
        i, k = key.split('/')
        i = int(i)
        allh = set()
        for cfg in CONFIGS:
            if key in results[cfg]:
                allh.update(results[cfg][key])
        if k == 'file':
            # the file API with default options must give what the string API gives with plain options
            allh.update(ref.get('%d/0' % i, []))
            k = -1
        elif k == 'samefile':
            # ... also when the file was replaced by other text of the same size with its old modification time
            for cfg in CONFIGS:
                allh.update(results[cfg].get('%d/samestr' % i, []))
            c['same_size_same_mtime_rewrites'] = c.get('same_size_same_mtime_rewrites', 0) + 1
            k = -2
        elif k == 'samestr':
            k = -3
        for cfg in CONFIGS:
            c['hashes_compared'] = c.get('hashes_compared', 0) + len(results[cfg].get(key, []))
        if len(allh) != 1 and v is None:
            per = {'%s/%s' % cfg: results[cfg].get(key) for cfg in CONFIGS}
            v = {'kind': 'output_differs_between_runs', 'detail': {'options': int(k), 'hashes': per},
                 'witness': {'text': texts[i], 'options': int(k)}}
        if any(h.startswith('EXC') for h in allh):
            c['compile_exceptions'] = c.get('compile_exceptions', 0) + 1
    for i, t in enumerate(texts):
        if nts[i]:
            keys.append(h64(t))
    r = {'c': c, 'nt': False, 'key': None, 'multi_keys': keys,
         'sample': {'program': texts[-1][:200], 'configs': ['PYTHONHASHSEED=%s order=%s' % cfg for cfg in CONFIGS]}}
    if v:
        r['v'] = v
    return r


def replay(ctx, w):
    texts = [w['text']]
    tmp = tempfile.mkdtemp(prefix='ypv-c18-')
    out = {}
    try:
        path = os.path.join(tmp, 'texts.json')
        json.dump(texts, open(path, 'w'))
        for hs in ('0', '1', '2', '3'):
            env = dict(os.environ)
            env['PYTHONHASHSEED'] = hs
            p = subprocess.run([sys.executable, '-c', WORKER, os.path.join(REPO, 'src'), path, 'fwd'], env=env,
                               capture_output=True, text=True, timeout=100)
            out[hs] = json.loads(p.stdout.strip().split('\n')[-1])
    finally:
        for fn in os.listdir(tmp):
            os.unlink(os.path.join(tmp, fn))
        os.rmdir(tmp)
    vals = set(json.dumps(v, sort_keys=True) for v in out.values())
    if len(vals) != 1:
        return {'v': {'kind': 'output_differs_between_runs', 'detail': out, 'witness': w}}
    return {'v': None, 'info': out}
