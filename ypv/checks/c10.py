"""C10 - text outside the grammar is rejected, never partially compiled."""
import ast
import glob
import os
import random
import sys
from .. import gramgen, recog
from ..real import Real
from ..observe import Ctx, REPO

PROPERTY = 'C10'
LEVEL = 'exploration'
RULE = ('base programs derived from the grammar (every alternative of every rule: directives, ATOM/NUMERAL, unary and '
        'binary operators, prefix =(a,b), lists, list pairs, quoted atoms with newlines/escapes/non-ASCII, comments, '
        'random layout) plus the repository sample files; for each base program EVERY single token deletion, '
        'duplication and adjacent swap, truncation at every character, and random insertions of foreign tokens / '
        'characters (# $ " e-acute NUL, unterminated quotes, trailing garbage, comment at EOF without newline). For every '
        'resulting string the monitor records: did compile_prolog_from_string raise; ANTLR error events (hook on '
        'ProxyErrorListener.syntaxError, sees every listener); was all input consumed (hook on prologParser.program); '
        'the set of top-level defs in the output. Violation iff the compiler returned normally AND (the independent '
        'recogniser rejects the text OR ANTLR reported an error OR input was left unconsumed OR the defined '
        'name/arity set differs from the clause heads found by the recogniser). Non-trivial = string outside the '
        'grammar (recogniser rejects); distinct = hash of the text')
ASSUMPTIONS = ['ypv/recog.py (hand lexer + set-of-end-positions recogniser written from prolog.g4) decides membership in the grammar',
               'raising is always acceptable; which exception type is raised is not judged']
RULE_ADDED = (' Added after the rounds of independently written changes (DESIGN.md 12.2): ' +
              'rejected texts compiled again with every debug option; file API: a valid version, then same-size text outside the grammar with the old modification time; files with invalid UTF-8 inserted at every kind of position; a long text with an early error compiled on a worker thread while this thread compiles other programs (judged: the bad text raises).')
RULE = RULE + RULE_ADDED


def plan(tier, seed):
    if tier == 'quick':
        return {'n': 480, 'deadline': 150, 'case_timeout': 120,
                'floor': {'files_with_invalid_utf8': 1, 'file_history_cases': 1, 'distinct_nontrivial': 20000, 'strings_checked': 60000, 'rejected_by_recogniser': 20000,
                          'accepted_by_both': 3000, 'edit_trunc': 10000, 'edit_del': 5000, 'edit_dup': 5000, 'edit_swap': 3000}}
    return {'n': 9800, 'deadline': 560, 'case_timeout': 120,
            'floor': {'files_with_invalid_utf8': 1, 'file_history_cases': 1, 'distinct_nontrivial': 300000, 'strings_checked': 1000000, 'rejected_by_recogniser': 300000,
                      'accepted_by_both': 150000}}


class Hooks:
    def __init__(self, real):
        from yldprolog import prologParser as PP
        from antlr4 import Token
        self.consumed = None
        orig = PP.prologParser.program
        hooks = self

        def program(self_):
            try:
                return orig(self_)
            finally:
                try:
                    hooks.consumed = (self_._input.LA(1) == Token.EOF)
                except Exception:
                    hooks.consumed = None
        PP.prologParser.program = program


def setup(tier, seed):
    real = Real(clock=False, antlr=True)
    hooks = Hooks(real)
    samples = []
    for f in sorted(glob.glob(os.path.join(REPO, 'compiler/test/*.prolog')) + glob.glob(os.path.join(REPO, 'tests/data/*.prolog'))):
        try:
            t = open(f, encoding='utf8').read()
        except Exception:
            continue
        if len(t) < 700:
            samples.append((os.path.basename(f), t))
    return {'real': real, 'hooks': hooks, 'samples': samples}


def debug_options(k):
    import io

    class D:
        debug_filename = bool(k & 1)
        debug_parser = bool(k & 2)
        debug_generator = bool(k & 4)
        current_source_file = 'c10.prolog'
        outf = io.StringIO()
    return D


def observe(ctx, text, options=None):
    real, hooks = ctx['real'], ctx['hooks']
    real.antlr.take()
    hooks.consumed = None
    out = None
    exc = None
    try:
        out = real.Cm.compile_prolog_from_string(text, options or Ctx)
    except RecursionError:
        exc = 'RecursionError'
    except Exception as e:
        exc = type(e).__name__
    ev = real.antlr.take()
    return out, exc, ev, hooks.consumed


def defs_of(code):
    try:
        tree = ast.parse(code)
    except SyntaxError:
        return None
    return sorted(n.name for n in tree.body if isinstance(n, ast.FunctionDef))


def judge(ctx, text, c):
    """returns violation or None"""
    an = recog.analyse(text)
    out, exc, ev, consumed = observe(ctx, text)
    c['strings_checked'] = c.get('strings_checked', 0) + 1
    if an['accept'] is False and (hash(text) & 7) == 0:
        # the same text with debug options switched on must be rejected as well
        k = 1 + (hash(text) >> 3) % 7
        out2, exc2, ev2, consumed2 = observe(ctx, text, debug_options(k))
        c['rejected_strings_with_debug_options'] = c.get('rejected_strings_with_debug_options', 0) + 1
        if exc2 is None:
            return {'kind': 'accepted_text_outside_grammar_with_debug_options', 'detail': {'options': k, 'recogniser': an['reason'],
                                                                                               'antlr_events': ev2[:2]}, 'witness': {'text': text, 'options': k}}, an
    if an['accept'] is None:
        c['recogniser_gave_up'] = c.get('recogniser_gave_up', 0) + 1
        return None, an
    if not an['accept']:
        c['rejected_by_recogniser'] = c.get('rejected_by_recogniser', 0) + 1
    if exc is not None:
        c['compiler_raised'] = c.get('compiler_raised', 0) + 1
        c['raised_' + exc] = c.get('raised_' + exc, 0) + 1
        if an['accept']:
            c['valid_but_rejected_by_compiler'] = c.get('valid_but_rejected_by_compiler', 0) + 1
        if ev:
            c['antlr_error_events_seen'] = c.get('antlr_error_events_seen', 0) + 1
            if an['accept']:
                # the recogniser would be too permissive: counts as an oracle disagreement
                c['oracle_disagreement'] = c.get('oracle_disagreement', 0) + 1
        return None, an
    w = {'text': text}
    if ev:
        return {'kind': 'compiled_despite_antlr_error', 'detail': {'events': ev[:3]}, 'witness': w}, an
    if consumed is False:
        return {'kind': 'compiled_with_unconsumed_input', 'detail': {}, 'witness': w}, an
    if not an['accept']:
        return {'kind': 'accepted_text_outside_grammar', 'detail': {'recogniser': an['reason']}, 'witness': w}, an
    c['accepted_by_both'] = c.get('accepted_by_both', 0) + 1
    heads = an['heads']
    if all(h is None or h != ('?',) for h in heads):
        want = sorted(set('%s_%d' % h for h in heads if h is not None))
        got = defs_of(out)
        if got is not None:
            got = sorted(set(got))
            if got != want:
                return {'kind': 'defined_predicates_differ_from_clause_heads',
                        'detail': {'expected': want, 'got': got}, 'witness': w}, an
            c['head_sets_compared'] = c.get('head_sets_compared', 0) + 1
    return None, an


def run_base(ctx, rng, base_text, base_toks, c, keys):
    first_v = None
    cases = [('base', 0, base_text)]
    if base_toks is not None:
        for kind, i, toks in gramgen.token_edits(rng, base_toks):
            cases.append((kind, i, gramgen.join(rng, toks)))
    for kind, i, t in gramgen.char_edits(rng, base_text):
        cases.append((kind, i, t))
    # trailing garbage / comment at EOF without newline / unterminated quote
    for tail in [' ) garbage', " 'unterminated", ' # bar(b).', '% comment at EOF', ' foo(', ' :- .', ' .', '"x"', ' é']:
        cases.append(('tail', 0, base_text.rstrip('\n') + tail))
    sample = None
    same_len_rejected = []
    base_len = len(base_text.encode('utf8'))
    for kind, i, t in cases:
        v, an = judge(ctx, t, c)
        if an['accept'] is False and len(same_len_rejected) < 5 and len(t.encode('utf8')) == base_len and t != base_text:
            same_len_rejected.append(t)
        k = 'edit_' + kind.split(':')[0]
        c[k] = c.get(k, 0) + 1
        if an['accept'] is False:
            from ..harness import h64
            keys.add(h64(t))
            if sample is None and kind not in ('base', 'trunc'):
                sample = {'edit': kind, 'position': i, 'text': t[:200], 'recogniser': an['reason']}
        if v and first_v is None:
            v['detail']['edit'] = [kind, i]
            first_v = v
    if first_v is None and same_len_rejected:
        v = file_history(ctx, base_text, same_len_rejected, c)
        if v:
            first_v = v
    if first_v is None and rng.random() < 0.5:
        first_v = byte_cases(ctx, rng, base_text, c)
    return first_v, sample


BAD_BYTES = [b'\xff', b'\xa0', b'\xe9', b'\xfc\xdf', b'\xc3', b'\xe2\x82', b'\xed\xa0\x80', b'\xc0\xaf', b'\xf8\x88\x80\x80\x80',
             b'\x80', b'\xfe\xff']


def byte_cases(ctx, rng, base_text, c):
    """source FILES are bytes: a file that is not valid UTF-8 is not a sentence of the grammar wherever the bad
    bytes sit (inside a name, between tokens, inside a quoted atom or a comment): the file API must raise"""
    import os
    import tempfile
    real = ctx['real']
    raw = base_text.encode('utf8')
    d = tempfile.mkdtemp(prefix='ypv-c10b-')
    path = os.path.join(d, 'bytes.prolog')
    try:
        for _ in range(3):
            bad = rng.choice(BAD_BYTES)
            # cut only at character boundaries of the valid text, so that the inserted bytes are the only defect
            pos = rng.randrange(len(base_text) + 1)
            cut = len(base_text[:pos].encode('utf8'))
            data = raw[:cut] + bad + raw[cut:]
            try:
                data.decode('utf8')
                continue
            except UnicodeDecodeError:
                pass
            with open(path, 'wb') as f:
                f.write(data)
            c['files_with_invalid_utf8'] = c.get('files_with_invalid_utf8', 0) + 1
            try:
                real.Cm.compile_prolog_from_file(path, Ctx)
            except Exception:
                continue
            return {'kind': 'file_with_invalid_utf8_accepted', 'detail': {'bytes_inserted': repr(bad), 'at_byte': cut},
                    'witness': {'text': base_text, 'bytes_inserted': repr(bad), 'at_byte': cut}}
    finally:
        try:
            os.unlink(path)
        except OSError:
            pass
        try:
            os.rmdir(d)
        except OSError:
            pass
    return None


def file_history(ctx, base_text, bad_texts, c):
    """the file API with a compilation history: the same path first holds a valid program, then text outside the
    grammar of exactly the same size, with the file's modification time preserved (cp -p, rsync -t, coarse
    timestamps): the second compilation must look at the new contents"""
    import os
    import tempfile
    real = ctx['real']
    d = tempfile.mkdtemp(prefix='ypv-c10-')
    path = os.path.join(d, 'prog.prolog')
    try:
        with open(path, 'w', encoding='utf8', newline='') as f:
            f.write(base_text)
        st = os.stat(path)
        try:
            real.Cm.compile_prolog_from_file(path, Ctx)
        except Exception:
            return None
        for ti, t in enumerate(bad_texts):
            with open(path, 'w', encoding='utf8', newline='') as f:
                f.write(t)
            os.utime(path, ns=(st.st_atime_ns, st.st_mtime_ns))
            c['file_history_cases'] = c.get('file_history_cases', 0) + 1
            # the options vary: everything off, the library's own default class, a source-file name set by the
            # caller, debug options on (returning normally - with code or with None - is an acceptance)
            opts = [Ctx, real.Cm.CompilerContext, debug_options(0), debug_options(1 + (ti % 7))][(ti + len(base_text)) % 4]
            try:
                real.Cm.compile_prolog_from_file(path, opts)
            except Exception:
                continue
            return {'kind': 'file_outside_grammar_accepted_after_valid_version', 'detail': {'same_size': True, 'mtime_preserved': True},
                    'witness': {'text': t, 'previous_valid_text': base_text}}
    finally:
        try:
            os.unlink(path)
            os.rmdir(d)
        except OSError:
            pass
    return None


def overlapping_case(ctx, rng, c):
    """two compilations overlapping in time (a worker thread compiles a long text with an early syntax error while
    this thread compiles small valid programs with the same options): the text outside the grammar must still be
    rejected. Only 'the bad text raised' is judged - any exception counts."""
    import threading
    real = ctx['real']
    toks = gramgen.program(rng)
    good = gramgen.join(rng, toks)
    bad_first = rng.choice(['a(X) :- b(X),, c(X).', 'a(X) :- b(X) c(X).', 'a(X :- b.', "a('x) :- b.", 'a(X) :- ; b.', 'a(X)) :- b.'])
    text = bad_first + '\n' + (good.rstrip('\n') + '\n') * rng.choice([30, 120, 400])
    an = recog.analyse(text)
    if an['accept'] is not False:
        return None
    out = {}

    def work():
        try:
            out['code'] = real.compile(text)
        except BaseException as e:
            out['exc'] = type(e).__name__
    th = threading.Thread(target=work)
    old = sys.getswitchinterval()
    sys.setswitchinterval(1e-5)
    try:
        th.start()
        n = 0
        while th.is_alive() and n < 20000:
            try:
                real.compile('ok(%d).\n' % n)
            except Exception:
                pass
            n += 1
        th.join(60)
    finally:
        sys.setswitchinterval(old)
    c['overlapping_compilations'] = c.get('overlapping_compilations', 0) + 1
    c['compilations_started_meanwhile'] = c.get('compilations_started_meanwhile', 0) + n
    if th.is_alive():
        return None
    if 'code' in out:
        return {'kind': 'text_outside_grammar_accepted_while_another_compilation_ran',
                'detail': {'first_clause': bad_first, 'recogniser': an['reason'], 'returned_chars': len(out['code'])},
                'witness': {'text': text[:400], 'text_chars': len(text)}}
    return None


def run_case(ctx, seed, idx, tier):
    rng = random.Random((seed * 1000003 + idx) * 7 + 10)
    c = {}
    keys = set()
    if idx % 25 == 9:
        v = overlapping_case(ctx, rng, c)
        r = {'c': c, 'nt': False, 'key': None, 'multi_keys': []}
        if v:
            r['v'] = v
        return r
    if idx % 12 == 11 and ctx['samples']:
        name, text = ctx['samples'][(idx // 12) % len(ctx['samples'])]
        v, sample = run_base(ctx, rng, text, None, c, keys)
        c['base_sample_files'] = 1
    else:
        toks = gramgen.program(rng, wild=rng.random() < 0.25)
        text = gramgen.join(rng, toks)
        v, sample = run_base(ctx, rng, text, toks, c, keys)
        c['base_generated'] = 1
    r = {'c': c, 'nt': False, 'key': None, 'sample': sample, 'multi_keys': sorted(keys)}
    if v:
        r['v'] = v
    return r


def corpus():
    # the witnesses named in the property and in DESIGN F08
    return [{'text': t} for t in [
        "a(X) :- b(X),, c(X).", "foo(a). ) garbage", "foo(a). 'unterminated", "foo(a). # bar(b).", 'foo("a").',
        "foo(é).", "t :- call((p(X),p(Y))).", "member(X,[Y|L] :- member(X,L).", "foo(a)", "foo(a). bar(b", "foo(a)..",
        "foo(a). % comment at EOF", "foo(a) :- .", "foo(a) bar(b).", "foo(a).\x00", "foo :- a ; .", "f(a,).", "[a|b].", "f([a|]).",
    ]]


def run_corpus(ctx, item):
    c = {}
    v, an = judge(ctx, item['text'], c)
    from ..harness import h64
    r = {'c': c, 'nt': False, 'key': None, 'multi_keys': [h64(item['text'])] if an['accept'] is False else []}
    if v:
        r['v'] = v
    return r


def replay(ctx, w):
    c = {}
    v, an = judge(ctx, w['text'], c)
    return {'v': v, 'recogniser': an, 'counters': c}
