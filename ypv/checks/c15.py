"""C15 - answers are fully dereferenced and stay valid after backtracking."""
import random
from .. import gen, diff
from ..real import Real
from ..terms import is_bound
from ..terms import (V, A, C, I, L, NIL, rterm, term_vars, is_ground, canon, resolve, snap_real, snap_real_raw,
                     build_real, rprogram)
from ..refA import unify as ref_unify
from ..sto import sto
from ..terms import Cyclic
from ..observe import SCRIPT_FN

PROPERTY = 'C15'
LEVEL = 'exploration'
RULE = ('acyclic equation systems V_i = term(V_j, j>i, constants) of 2-6 equations, executed in every random order '
        '(outer variable first and inner later, inner first, chains through several variables), realised (a) as compiled '
        'clause bodies mixing =, head unification (mk/eq helper facts) and dynamic facts, (b) as nested open '
        'unify() generators through the API. At each answer the monitor records to_python(v) and s = get_value(v) '
        'for every query variable; after the generator is closed it walks s WITHOUT dereferencing. Checked: to_python '
        'at the answer equals the Python value of the reference answer at every depth; if the reference answer is '
        'ground, the saved s equals the reference term and contains no Variable, and to_python(s) is unchanged; '
        'the same for findall bags and terms exported through assertz. Non-trivial = some variable is bound before a '
        'variable inside its value is bound (outer-first order) and the answer is nested; distinct = hash of the case')
ASSUMPTIONS = ['expected values come from an independent Robinson unifier over the equation system (order-independent)',
               'to_python of partial lists is unspecified and not called', 'STO systems are discarded']
RULE_ADDED = (' Added after the rounds of independently written changes (DESIGN.md 12.2): ' +
              "systems of up to 12 equations and lists of up to 33 elements (answers above 3000 nodes are discarded and counted); assert / findall / once goals between two bindings; answers built incrementally by append / dup / reverse through up to 150 nested bindings; 'no bound Variable inside a get_value result' as an invariant; findall templates bound after the findall.")
RULE = RULE + RULE_ADDED

CONST = [A('a'), A('b'), I(1), I(7), NIL, I(0)]      # (0: a value that is falsy in Python)


def plan(tier, seed):
    if tier == 'quick':
        return {'n': 20000, 'deadline': 150,
                'floor': {'side_goals_in_the_middle': 1, 'distinct_nontrivial': 4000, 'outer_first_orders': 6000, 'values_checked_after_close': 30000,
                          'to_python_checked': 30000, 'api_cases': 3000, 'compiled_cases': 8000,
                          'findall_exports': 1500, 'assert_exports': 1500}}
    return {'n': 600000, 'deadline': 540,
            'floor': {'side_goals_in_the_middle': 1, 'distinct_nontrivial': 80000, 'outer_first_orders': 100000, 'values_checked_after_close': 600000,
                      'to_python_checked': 600000, 'api_cases': 60000, 'compiled_cases': 150000,
                      'findall_exports': 30000, 'assert_exports': 30000}}


def setup(tier, seed):
    return {'real': Real(clock=True)}


def pyvalue(t):
    """the Python value the property states for a (resolved) reference term; raises ValueError for partial lists"""
    k = t[0]
    if k == 'a':
        return [] if t[1] == '[]' else t[1]
    if k in ('i', 's'):
        return t[1]
    if k == 'v':
        return None
    if t[1] == '.' and len(t[2]) == 2:
        tail = pyvalue(t[2][1])
        if not isinstance(tail, list) or (t[2][1][0] not in ('c', 'a')):
            raise ValueError('partial list')
        return [pyvalue(t[2][0])] + tail
    return (t[1], [pyvalue(a) for a in t[2]])


def has_partial_list(t):
    if t[0] != 'c':
        return False
    if t[1] == '.' and len(t[2]) == 2:
        tl = t[2][1]
        if tl[0] == 'v' or (tl[0] in ('i', 's')) or (tl[0] == 'a' and tl[1] != '[]') or (tl[0] == 'c' and not (tl[1] == '.' and len(tl[2]) == 2)):
            return True
    return any(has_partial_list(a) for a in t[2])


def gen_system(rng):
    n = rng.choice([2, 3, 4, 5, 6, 6, 9, 12])
    vs = [V('V%d' % i) for i in range(1, n + 1)]
    eqs = []
    for i in range(n):
        later = vs[i + 1:]
        r = rng.random()
        if not later or r < 0.25:
            t = rng.choice(CONST)
        elif r < 0.45:
            t = rng.choice(later)
        elif r < 0.8:
            k = rng.choice([1, 2, 2])
            t = C(rng.choice(['f', 'g']), *[rng.choice(later + CONST[:2]) for _ in range(k)])
        elif r < 0.9:
            n_items = rng.choice([1, 2, 2, 17, 33])
            if n_items > 2:
                # long lists hold constants and at most two references (sizes multiply along chains of references)
                items = [rng.choice(CONST[:3]) for _ in range(n_items)]
                for _ in range(rng.choice([0, 1, 2])):
                    items[rng.randrange(n_items)] = rng.choice(later)
                t = L(items)
            else:
                t = L([rng.choice(later + CONST[:2]) for _ in range(n_items)])
        else:
            # open list whose tail is another variable: closed later, possibly through a chain of variables
            t = L([rng.choice(later + CONST[:2]) for _ in range(rng.choice([1, 2]))], rng.choice(later))
        eqs.append((vs[i], t))
    order = list(range(n))
    rng.shuffle(order)
    return vs, eqs, order


def outer_first(eqs, order):
    """some equation V_i = t(...V_j...) is executed before the equation that binds V_j"""
    pos = {eqs[i][0]: order.index(i) for i in range(len(eqs))}
    for i, (v, t) in enumerate(eqs):
        for w in term_vars(t):
            if w in pos and pos[v] < pos[w] and t[0] == 'c':
                return True
    return False


def term_depth(t):
    best = 0
    stack = [(t, 1)]
    while stack:
        x, d = stack.pop()
        if d > best:
            best = d
        if x[0] == 'c':
            for a in x[2]:
                stack.append((a, d + 1))
    return best


def expected(vs, eqs):
    s = {}
    for a, b in eqs:
        if sto([(a, b)], s):
            return None
        try:
            s2 = ref_unify(a, b, s)
        except Cyclic:
            return None
        if s2 is None:
            return None
        s = s2
    return [resolve(v, s) for v in vs]


HELPERS = [(C('eq', V('X'), V('X')), ('true',)),
           (C('mk1', C('f', V('X')), V('X')), ('true',)),
           (C('mk2', C('g', V('X'), V('Y')), V('X'), V('Y')), ('true',))]


def goal_for(rng, v, t):
    """one equation as a goal: =, flipped =, eq/2 (head unification of a repeated variable), mk helpers"""
    r = rng.random()
    if t[0] == 'c' and t[1] == 'f' and len(t[2]) == 1 and r < 0.3:
        return ('call', C('mk1', v, t[2][0]))
    if t[0] == 'c' and t[1] == 'g' and len(t[2]) == 2 and r < 0.3:
        return ('call', C('mk2', v, t[2][0], t[2][1]))
    if r < 0.5:
        return ('call', C('=', v, t))
    if r < 0.75:
        return ('call', C('=', t, v))
    return ('call', C('eq', v, t))


def bound_variable_inside(E, value, cap=5000):
    """walks a value returned by get_value WITHOUT dereferencing: True if it contains a Variable that is bound right now"""
    stack = [value]
    n = 0
    while stack:
        n += 1
        if n > cap:
            return False
        o = stack.pop()
        if isinstance(o, E.Variable):
            if is_bound(o):
                return True
        elif isinstance(o, E.Functor):
            stack.extend(o._args)
    return False


def check_values(real, robs, exp, tp_at, saved, c, where, wrapped=None):
    """returns violation or None"""
    E = real.E
    if wrapped is not None and not any(has_partial_list(e) for e in exp):
        want = ('w', [pyvalue(e) for e in exp])
        if wrapped != want:
            return {'kind': 'to_python_at_answer_wrong', 'detail': {'expected': want, 'got': wrapped, 'where': where + ' (to_python of a structure holding the variables)'}}
        c['to_python_checked'] = c.get('to_python_checked', 0) + 1
    for i, e in enumerate(exp):
        if has_partial_list(e):
            c['partial_list_skipped'] = c.get('partial_list_skipped', 0) + 1
            continue
        want = pyvalue(e)
        if tp_at[i] != want:
            return {'kind': 'to_python_at_answer_wrong', 'detail': {'var': i, 'expected': want, 'got': tp_at[i], 'where': where}}
        c['to_python_checked'] = c.get('to_python_checked', 0) + 1
        if is_ground(e):
            raw = snap_real_raw(E, [saved[i]])
            if raw != (e,):
                return {'kind': 'saved_value_changed_after_backtracking',
                        'detail': {'var': i, 'expected': e, 'got_after_close': raw, 'where': where}}
            try:
                tp2 = E.to_python(saved[i])
            except Exception as ex:
                return {'kind': 'to_python_of_saved_value_raises', 'detail': {'exc': type(ex).__name__, 'where': where}}
            if tp2 != want:
                return {'kind': 'saved_value_changed_after_backtracking',
                        'detail': {'var': i, 'expected': want, 'got_to_python_after_close': tp2, 'where': where}}
            c['values_checked_after_close'] = c.get('values_checked_after_close', 0) + 1
    return None


def incremental_case(ctx, rng):
    """answers built incrementally by recursive predicates (append, dup, rev with accumulator): a list of n cells in
    which every tail is a variable bound one recursion level deeper - n nested bindings on one path, n up to 150.
    The values collected with the documented idiom must be free of variables and still right after the query."""
    real = ctx['real']
    E = real.E
    n = rng.choice([3, 20, 40, 63, 64, 65, 66, 80, 100, 128, 129, 150])
    kind = rng.choice(['append', 'dup', 'revacc', 'append_split'])
    items = [rng.choice(['a', 'b', 'c']) for _ in range(n)]
    src = ('app([], Y, Y).\napp([H|T], Y, [H|R]) :- app(T, Y, R).\n'
           'dup([], []).\ndup([X|T], [X,X|R]) :- dup(T, R).\n'
           'rv([], A, A).\nrv([H|T], A, R) :- rv(T, [H|A], R).\n')
    c = {'incremental_answers': 1}
    if n >= 64:
        c['answers_through_64_or_more_nested_bindings'] = 1
    w = {'kind': kind, 'n': n}

    def viol(kind_, detail):
        return {'c': c, 'nt': True, 'key': None, 'v': {'kind': kind_, 'detail': detail, 'witness': w}}
    yp = real.engine(real.compile(src))
    lst = yp.makelist([yp.atom(x) for x in items])
    R = yp.variable()
    if kind == 'append':
        q = yp.query('app', [lst, yp.makelist([yp.atom('z')]), R])
        want = [items + ['z']]
    elif kind == 'dup':
        q = yp.query('dup', [lst, R])
        want = [[x for x in items for _ in (0, 1)]]
    elif kind == 'revacc':
        q = yp.query('rv', [lst, yp.ATOM_NIL, R])
        want = [list(reversed(items))]
    else:
        S = yp.variable()
        q = yp.query('app', [R, S, lst])
        want = [items[:i] for i in range(n + 1)]
    saved = []
    at = []
    try:
        for _ in q:
            saved.append(R.get_value())
            at.append(E.to_python(R))
            if len(saved) > n + 2:
                break
    except RecursionError:
        return {'c': c, 'nt': False, 'key': None, 'discard': 'recursion'}
    if at != want:
        return viol('to_python_at_answer_wrong', {'answers': len(at), 'expected_answers': len(want)})
    for i, v in enumerate(saved):
        if bound_variable_inside(E, v, cap=100000) or any(isinstance(x, E.Variable) for x in _walk_raw(E, v)):
            return viol('collected_value_contains_a_variable', {'answer': i, 'where': 'value kept from the enumeration, looked at after the query ended'})
        try:
            tp = E.to_python(v)
        except Exception as ex:
            return viol('to_python_of_saved_value_raises', {'exc': type(ex).__name__, 'answer': i})
        if tp != want[i]:
            return viol('saved_value_changed_after_backtracking', {'answer': i, 'expected_len': len(want[i]), 'got': repr(tp)[:200]})
        c['values_checked_after_close'] = c.get('values_checked_after_close', 0) + 1
    return {'c': c, 'nt': True, 'key': ('incremental', kind, tuple(items))}


def kept_partial_case(ctx, rng):
    """a value read with get_value while only SOME of the bindings exist is kept by the host (a template with
    unbound variables inside); those bindings are undone, other bindings are made, and the kept value is read again:
    it must follow the bindings of that moment at every depth, whatever was current when it was first read"""
    real = ctx['real']
    E = real.E
    vs, eqs, order = gen_system(rng)
    if len(vs) > 6:
        vs, eqs = vs[:6], None
        return {'c': {}, 'nt': False, 'key': None, 'discard': 'system_too_big_for_this_scenario'}
    c = {'kept_partial_values': 1}
    yp = real.engine()
    vmap = {}
    robs = [build_real(yp, v, vmap) for v in vs]
    name_of = {id(vmap[v]): v for v in vs}
    j = rng.randrange(1, len(eqs) + 1)
    first = [eqs[i] for i in order[:j]]
    s = {}
    for a, b in first:
        if sto([(a, b)], s):
            return {'c': c, 'nt': False, 'key': None, 'discard': 'sto_or_unsat'}
        try:
            s = ref_unify(a, b, s)
        except Cyclic:
            return {'c': c, 'nt': False, 'key': None, 'discard': 'sto_or_unsat'}
        if s is None:
            return {'c': c, 'nt': False, 'key': None, 'discard': 'sto_or_unsat'}
    w = {'equations_phase_1': [[rterm(a), rterm(b)] for a, b in first]}
    held = []

    def to_term(o, depth=0):
        if isinstance(o, E.Variable):
            if is_bound(o) or id(o) not in name_of:
                raise ValueError('unexpected variable')
            return name_of[id(o)]
        if isinstance(o, E.Atom):
            return A(o._name)
        if isinstance(o, E.Functor):
            return ('c', o._name, tuple(to_term(x, depth + 1) for x in o._args))
        if isinstance(o, bool):
            raise ValueError('bool')
        if isinstance(o, int):
            return I(o)
        return ('s', o)
    try:
        for a, b in first:
            g = iter(E.unify(build_real(yp, a, vmap), build_real(yp, b, vmap)))
            held.append(g)
            next(g)
        kept = [E.get_value(v) for v in robs]
        try:
            kept_terms = [to_term(k) for k in kept]
        except ValueError:
            return {'c': c, 'nt': True, 'key': None, 'v': {'kind': 'get_value_result_contains_a_bound_variable', 'detail': {'where': 'partial state'}, 'witness': w}}
    except StopIteration:
        return {'c': c, 'nt': True, 'key': None, 'v': {'kind': 'unify_failed', 'detail': {}, 'witness': w}}
    finally:
        while held:
            held.pop().close()
    if kept_terms != [resolve(v, s) for v in vs]:
        return {'c': c, 'nt': True, 'key': None, 'v': {'kind': 'bindings_wrong', 'detail': {'where': 'partial state', 'expected': [resolve(v, s) for v in vs], 'got': kept_terms}, 'witness': w}}
    free = []
    for t in kept_terms:
        for v in term_vars(t):
            if v not in free:
                free.append(v)
    if not free:
        return {'c': c, 'nt': False, 'key': None}
    # phase 2: other bindings for the variables that were free in the kept values (as many as, fewer than, or more
    # than there were bindings in phase 1)
    rng.shuffle(free)
    second = [(v, rng.choice(CONST + [C('f', A('b'))])) for v in free[:rng.choice([1, 1, 2, len(free), j])]]
    s2 = {}
    for a, b in second:
        s2 = ref_unify(a, b, s2)
    w['bindings_phase_2'] = [[rterm(a), rterm(b)] for a, b in second]
    try:
        for a, b in second:
            g = iter(E.unify(build_real(yp, a, vmap), build_real(yp, b, vmap)))
            held.append(g)
            next(g)
        for i, k in enumerate(kept):
            val = E.get_value(k)
            if bound_variable_inside(E, val):
                return {'c': c, 'nt': True, 'key': None, 'v': {'kind': 'get_value_result_contains_a_bound_variable',
                                                               'detail': {'where': 'kept value read again under other bindings', 'variable': i}, 'witness': w}}
            want = canon([resolve(kept_terms[i], s2)], {})
            got = snap_real(E, [val])
            if got != want:
                return {'c': c, 'nt': True, 'key': None, 'v': {'kind': 'kept_value_does_not_follow_the_bindings',
                                                               'detail': {'variable': i, 'expected': want, 'got': got}, 'witness': w}}
            if not has_partial_list(resolve(kept_terms[i], s2)) and E.to_python(k) != pyvalue(resolve(kept_terms[i], s2)):
                return {'c': c, 'nt': True, 'key': None, 'v': {'kind': 'to_python_at_answer_wrong', 'detail': {'where': 'kept value', 'variable': i}, 'witness': w}}
            c['kept_values_reread'] = c.get('kept_values_reread', 0) + 1
    finally:
        while held:
            held.pop().close()
    return {'c': c, 'nt': True, 'key': ('kept', tuple(first), tuple(second))}


def _walk_raw(E, value, cap=100000):
    """every node of a term as stored (no dereferencing)"""
    stack = [value]
    k = 0
    while stack and k < cap:
        k += 1
        o = stack.pop()
        yield o
        if isinstance(o, E.Functor):
            stack.extend(o._args)


def run_case(ctx, seed, idx, tier):
    rng = random.Random((seed * 1000003 + idx) * 7 + 15)
    if idx % 25 == 7:
        return incremental_case(ctx, rng)
    if idx % 25 == 11:
        return kept_partial_case(ctx, rng)
    real = ctx['real']
    E = real.E
    vs, eqs, order = gen_system(rng)
    exp = expected(vs, eqs)
    c = {}
    if exp is None:
        return {'c': c, 'nt': False, 'key': None, 'discard': 'sto_or_unsat'}
    from ..terms import term_size
    if sum(term_size(e) for e in exp) > 3000:
        # (the observer's snapshot has a node cap; huge answers are not what this check is about)
        return {'c': c, 'nt': False, 'key': None, 'discard': 'answer_too_big'}
    of = outer_first(eqs, order)
    if of:
        c['outer_first_orders'] = 1
    nested = any(e[0] == 'c' for e in exp)
    key = (eqs, order)
    mode = rng.choice(['compiled', 'compiled', 'api', 'findall', 'assert'])
    witness = {'equations': [[rterm(a), rterm(b)] for a, b in eqs], 'order': order, 'mode': mode}

    def viol(v):
        v['witness'] = witness
        return {'c': c, 'nt': True, 'key': key, 'v': v}
    if mode == 'api':
        c['api_cases'] = 1
        yp = real.engine()
        vmap = {}
        robs = [build_real(yp, v, vmap) for v in vs]
        held = []
        mid_assert = rng.random() < 0.35
        try:
            for i in order:
                g = iter(E.unify(build_real(yp, eqs[i][0], vmap), build_real(yp, eqs[i][1], vmap)))
                held.append(g)
                try:
                    next(g)
                except StopIteration:
                    return viol({'kind': 'unify_failed', 'detail': {'equation': i}})
                if mid_assert and rng.random() < 0.4:
                    yp.assert_fact(yp.atom('mid'), [rng.choice(robs)])
                    c['side_goals_in_the_middle'] = 1
            try:
                tp_at = [None if has_partial_list(e) else E.to_python(v) for v, e in zip(robs, exp)]
            except Exception as ex:
                return viol({'kind': 'to_python_raises', 'detail': {'exc': type(ex).__name__ + ': ' + str(ex)[:100]}})
            saved = [E.get_value(v) for v in robs]
            at = snap_real(E, robs)
            wrapped = None if any(has_partial_list(e) for e in exp) else E.to_python(yp.functor('w', list(robs)))
        finally:
            for g in reversed(held):
                g.close()
        if at != canon(exp, {}):
            return viol({'kind': 'bindings_wrong', 'detail': {'expected': canon(exp, {}), 'got': at}})
        v = check_values(real, robs, exp, tp_at, saved, c, 'api', wrapped)
        if v:
            return viol(v)
    else:
        c['compiled_cases'] = 1
        goals = [goal_for(rng, eqs[i][0], eqs[i][1]) for i in order]
        if rng.random() < 0.35:
            # something else looks at the half-bound terms in the middle of the binding sequence: an assert of a
            # variable's current value, a findall over it, a meta-call - none of which may disturb what is read later
            for _ in range(rng.choice([1, 2])):
                mv = rng.choice(vs)
                k = rng.random()
                if k < 0.5:
                    mid = ('call', C(rng.choice(['assertz', 'asserta']), C('mid', mv)))
                elif k < 0.75:
                    mid = ('call', C('findall', mv, C('eq', mv, mv), V('Mid%d' % len(goals))))
                else:
                    mid = ('call', C('once', C('eq', mv, V('Mid%d' % len(goals)))))
                goals.insert(rng.randrange(len(goals) + 1), mid)
            c['side_goals_in_the_middle'] = 1
        head = C('t', *vs)
        clauses = list(HELPERS) + [(head, gen.conj(goals))]
        if mode == 'findall':
            clauses.append((C('bag', V('B')), ('call', C('findall', C('r', *vs), head, V('B')))))
            clauses.append((C('baglate', V('B')), ('and', ('call', C('findall', C('pair', vs[0], V('Late')), head, V('B'))), ('call', C('=', V('Late'), A('tag'))))))
        if mode == 'assert':
            clauses.append((A('store'), ('and', ('call', head), ('call', C('assertz', C('saved', *vs))))))
        src = rprogram(clauses, rng=rng)
        witness['src'] = src
        try:
            yp = real.engine(real.compile(src))
        except Exception as ex:
            return viol({'kind': 'compile:' + type(ex).__name__, 'detail': str(ex)[:200]})
        qv = [yp.variable() for _ in vs]
        real.clock.start(3000000)
        try:
            try:
                if mode == 'findall':
                    B = yp.variable()
                    n = 0
                    # a template with a variable that is only bound AFTER the findall: whatever findall does with such
                    # variables (share or copy), the value read at the answer must not hide a bound variable
                    for _ in yp.query('baglate', [B]):
                        if bound_variable_inside(E, E.get_value(B)):
                            return viol({'kind': 'get_value_result_contains_a_bound_variable', 'detail': {'where': 'findall bag, template variable bound after the findall'}})
                        c['late_bound_template_checked'] = c.get('late_bound_template_checked', 0) + 1
                    for _ in yp.query('bag', [B]):
                        n += 1
                        bag_tp = E.to_python(B) if not any(has_partial_list(e) for e in exp) else None
                        bag_saved = E.get_value(B)
                        if bound_variable_inside(E, bag_saved):
                            return viol({'kind': 'get_value_result_contains_a_bound_variable', 'detail': {'where': 'findall bag'}})
                    if n != 1:
                        return viol({'kind': 'answers', 'detail': {'expected': 1, 'got': n}})
                    c['findall_exports'] = 1
                    if not any(has_partial_list(e) for e in exp):
                        want = [('r', [pyvalue(e) for e in exp])]
                        if bag_tp != want:
                            return viol({'kind': 'to_python_at_answer_wrong', 'detail': {'expected': want, 'got': bag_tp, 'where': 'findall bag'}})
                        c['to_python_checked'] = c.get('to_python_checked', 0) + 1
                        if all(is_ground(e) for e in exp):
                            raw = snap_real_raw(E, [bag_saved])
                            wantt = (L([C('r', *exp)]),)
                            if raw != wantt:
                                return viol({'kind': 'saved_value_changed_after_backtracking',
                                             'detail': {'expected': wantt, 'got_after_close': raw, 'where': 'findall bag'}})
                            c['values_checked_after_close'] = c.get('values_checked_after_close', 0) + 1
                elif mode == 'assert':
                    n = len(list(yp.query('store', [])))
                    if n != 1:
                        return viol({'kind': 'answers', 'detail': {'expected': 1, 'got': n}})
                    got = []
                    for _ in yp.query('saved', qv):
                        got.append(snap_real(E, qv))
                    c['assert_exports'] = 1
                    if got != [canon(exp, {})]:
                        return viol({'kind': 'asserted_term_differs', 'detail': {'expected': [canon(exp, {})], 'got': got}})
                    c['values_checked_after_close'] = c.get('values_checked_after_close', 0) + 1
                else:
                    res = []
                    q = yp.query('t', qv)
                    for _ in q:
                        at = snap_real(E, qv)
                        try:
                            tp_at = [None if has_partial_list(e) else E.to_python(v) for v, e in zip(qv, exp)]
                        except Exception as ex:
                            return viol({'kind': 'to_python_raises', 'detail': {'exc': type(ex).__name__ + ': ' + str(ex)[:100]}})
                        # the documented idiom: collect get_value() results during the enumeration
                        saved = [v.get_value() for v in qv]
                        if any(bound_variable_inside(E, sv) for sv in saved):
                            return viol({'kind': 'get_value_result_contains_a_bound_variable', 'detail': {'where': 'compiled answer'}})
                        wrapped = None if any(has_partial_list(e) for e in exp) else E.to_python(yp.functor('w', list(qv)))
                        res.append((at, tp_at, saved, wrapped))
                    q.close()
                    if len(res) != 1:
                        return viol({'kind': 'answers', 'detail': {'expected': 1, 'got': len(res)}})
                    at, tp_at, saved, wrapped = res[0]
                    if at != canon(exp, {}):
                        return viol({'kind': 'bindings_wrong', 'detail': {'expected': canon(exp, {}), 'got': at}})
                    v = check_values(real, qv, exp, tp_at, saved, c, 'compiled', wrapped)
                    if v:
                        return viol(v)
            finally:
                real.clock.stop()
        except RecursionError:
            if max(term_depth(e) for e in exp) < 100:
                # (never seen on the unchanged tree: terms this shallow need nowhere near 1000 frames)
                return viol({'kind': 'recursion_error_on_shallow_terms', 'detail': {'depth': max(term_depth(e) for e in exp)}})
            return {'c': c, 'nt': False, 'key': None, 'discard': 'recursion'}
        except Exception as ex:
            return viol({'kind': 'exception:' + type(ex).__name__, 'detail': str(ex)[:200]})
        except BaseException as ex:
            if type(ex).__name__ == 'StepBudget':
                return viol({'kind': 'nontermination', 'detail': {}})
            raise
    nt = of and nested
    r = {'c': c, 'nt': nt, 'key': key}
    if nt:
        r['sample'] = {'equations_in_execution_order': ['%s = %s' % (rterm(eqs[i][0]), rterm(eqs[i][1])) for i in order],
                       'mode': mode, 'answer': [rterm(e) for e in exp]}
    return r


def replay(ctx, w):
    return {'v': None, 'info': 'replay by seed/index: rerun the tier with the same VERIF_SEED', 'witness': w}
