"""C01 - compiled clauses compute exactly Prolog's answers, in order."""
import random
from .. import gen, diff
from ..real import Real
from ..terms import V, rterm, A, C, L, NIL, I, term_vars
from .common import result_from_diff, diff_replay

PROPERTY = 'C01'
LEVEL = 'exploration'
RULE = ('random stratified programs (2-5 predicates, arity 0-3, repeated/nested head variables, '
        'lists, [H|T] patterns, `_`, =, \\=, true, fail) and recursive templates '
        '(member/append/len/rev/walk/perm/...) over random data, each with a random query '
        '(unbound / partially bound / ground arguments sharing variables); answers at every '
        'yield compared with refA = refB; non-trivial = at least one answer and at least 2 '
        'reference resolution steps; distinct = hash of (program text, query)')
ASSUMPTIONS = ['reference interpreters A and B (ypv/refA.py, ypv/refB.py) implement standard '
               'semantics; a verdict needs both to agree',
               'cases where any unification is subject to occurs check are discarded (sto)',
               'answer sequences are compared up to the first 60 answers',
               'engine termination bound: 2000 x reference steps + 100000 engine events']
RULE_ADDED = (' Added after the rounds of independently written changes (DESIGN.md 12.2): ' +
              "fact tables of 1100-1300 atoms; queries with up to 1200 answers, all compared; lists of 15-129 elements in the templates; a chain-building template (one variable-to-variable link per recursion level, up to 40 levels); record-style predicates of arity 9-16 with repeated variables at direct argument positions; confusable twins (f(X) next to f('X')).")
RULE = RULE + RULE_ADDED


# ---- bounded-exhaustive slice (thorough): all programs of <= 2 facts p(T1,T2) over a 6-term universe, seen through
# a rule q/2 that calls p twice, x all queries q(S1,S2) with S over the same universe (renamed apart)
UNIV = [A('a'), A('b'), V('X'), V('Y'), C('f', V('X')), L([V('X')], V('Y'))]
QUNIV = [A('a'), A('b'), V('Q0'), V('Q1'), C('f', V('Q0')), L([V('Q0')], V('Q1'))]


def exh_total():
    n = len(UNIV) ** 2
    return (n + n * n) * (len(QUNIV) ** 2)


def exh_case(idx):
    nq = len(QUNIV) ** 2
    qi = idx % nq
    pi = idx // nq
    n = len(UNIV) ** 2
    heads = []
    if pi < n:
        heads = [pi]
    else:
        pi -= n
        heads = [pi // n, pi % n]
    clauses = [(C('p', UNIV[h // len(UNIV)], UNIV[h % len(UNIV)]), ('true',)) for h in heads]
    clauses.append((C('q', V('X'), V('Y')), ('and', ('call', C('p', V('X'), V('Z'))), ('call', C('p', V('Z'), V('Y'))))))
    qargs = [QUNIV[qi // len(QUNIV)], QUNIV[qi % len(QUNIV)]]
    return clauses, 'q', qargs


def EXHAUSTIVE(tier):
    if tier == 'thorough':
        return {'universe': [rterm(t) for t in UNIV], 'programs': len(UNIV) ** 2 + len(UNIV) ** 4, 'queries_each': len(QUNIV) ** 2,
                'cases': exh_total()}
    return None


def plan(tier, seed):
    if tier == 'quick':
        return {'n': 12000, 'deadline': 150, 'floor': {'kind_template': 1, 'distinct_nontrivial': 2000, 'answers_compared': 5000}}
    return {'n': 250000 + exh_total(), 'deadline': 560, 'exh': exh_total(),
            'floor': {'kind_template': 1, 'distinct_nontrivial': 30000, 'answers_compared': 100000, 'exhaustive_cases': exh_total()}}


def setup(tier, seed):
    return {'real': Real(), 'exh': exh_total() if tier == 'thorough' else 0}


def corpus():
    Q0, Q1 = V('Q0'), V('Q1')
    X, Y = V('X'), V('Y')
    return [
        # witnesses of the defects named in the property (F01, F02)
        {'clauses': [(A('q'), ('true',)), (A('p'), ('and', ('call', A('q')), ('fail',)))], 'q': ('p', [])},
        {'clauses': [(A('p'), ('fail',))], 'q': ('p', [])},
        {'clauses': [(C('p', A('a')), ('fail',)), (C('p', A('b')), ('true',))], 'q': ('p', [Q0])},
        # repeated head variables nested in structures, aliasing between answer variables
        {'clauses': [(C('p', C('f', X, Y), L([X, Y], X)), ('true',))], 'q': ('p', [Q0, Q1])},
        {'clauses': [(C('p', X, X), ('true',))], 'q': ('p', [Q0, Q1])},
        {'clauses': [(C('p', V('_'), V('_')), ('true',))], 'q': ('p', [Q0, Q1])},
        {'clauses': [(C('q', A('a')), ('true',)), (C('q', A('a')), ('true',)),
                     (C('p', X), ('and', ('call', C('q', X)), ('call', C('q', X))))], 'q': ('p', [Q0])},
    ]


def _case(ctx, clauses, qname, qargs, rng, counters, maxans=diff.MAXANS):
    qvars = [V('Q0'), V('Q1'), V('Q2')]
    d = diff.differential(ctx['real'], clauses, qname, qargs, qvars, minimal=True, rng=rng, maxans=maxans)
    nt = False
    sample = None
    if d['status'] == 'ok':
        exp = d['exp']
        nt = len(exp['answers']) >= 1 and exp['refA'].steps >= 2
        sample = {'program': d['witness']['loads'][0][0], 'query': d['witness']['query'],
                  'answers': len(exp['answers']), 'first_answer': exp['answers'][:1]}
    key = (d.get('witness') or {}).get('loads'), (d.get('witness') or {}).get('query')
    return result_from_diff(d, nt, key, counters, sample)


def big_table_case(rng):
    n = rng.choice([1100, 1100, 1300])
    facts = [(C('colour', A('c%d' % i), A('v%d' % (i % 7))), ('true',)) for i in range(n)]
    facts.append((C('wanted', A('c%d' % (n - 10))), ('true',)))
    facts.append((C('wanted', A('c5')), ('true',)))
    facts.append((C('pick', V('K'), V('Vv')), ('and', ('call', C('wanted', V('K'))), ('call', C('colour', V('K'), V('Vv'))))))
    q = rng.choice([('colour', [A('c%d' % (n - 10)), V('Q0')]), ('pick', [V('Q0'), V('Q1')]), ('colour', [A('c%d' % (n - 10)), A('v%d' % ((n - 10) % 7))]),
                    ('colour', [V('Q0'), A('v3')])])
    return facts, q[0], q[1]


def many_answers_case(rng):
    """queries with hundreds to thousands of answers, all of them compared (the usual cap is 60)"""
    k = rng.choice([12, 24, 33])
    cl = [(C('num', I(i)), ('true',)) for i in range(k)]
    cl.append((C('pairs', V('X'), V('Y')), ('and', ('call', C('num', V('X'))), ('call', C('num', V('Y'))))))
    cl.append((C('nat', A('z')), ('true',)))
    cl.append((C('nat', C('s', V('N'))), ('call', C('nat', V('N')))))
    cl.append((C('upto', V('X'), V('L')), ('and', ('call', C('num', V('X'))), ('call', C('pre', V('L'), L([A('a')] * 12))))))
    cl.append((C('pre', NIL, V('_')), ('true',)))
    cl.append((C('pre', L([V('H')], V('T')), L([V('H')], V('R'))), ('call', C('pre', V('T'), V('R')))))
    q = rng.choice([('pairs', [V('Q0'), V('Q1')]), ('pairs', [V('Q0'), V('Q0')]), ('nat', [V('Q0')]), ('upto', [V('Q0'), V('Q1')])])
    return cl, q[0], q[1], (150 if q[0] == 'nat' else 1200)


def wide_case(rng):
    """record-style predicates of arity 9-16: heads with many constant / compound arguments and variables that occur
    at several direct argument positions, queried with every mix of bound, unbound and aliased arguments"""
    K = rng.choice([9, 10, 11, 12, 14, 16])
    consts = [A('k%d' % i) for i in range(4)] + [I(1), C('f', A('a')), L([A('a')])]
    X, Y = V('X'), V('Y')

    def head_args():
        if rng.random() < 0.5:
            # mostly constants and structures, and ONE variable at two or three direct positions (a wide record with
            # an equality constraint between fields)
            out = [consts[(i + rng.choice([0, 0, 1])) % len(consts)] if rng.random() < 0.9 else C('g', A('k1')) for i in range(K)]
            for pos in rng.sample(range(K), rng.choice([2, 2, 3])):
                out[pos] = X
            if rng.random() < 0.3:
                out[rng.randrange(K)] = Y
            return out
        out = []
        for i in range(K):
            r = rng.random()
            if r < 0.62:
                out.append(consts[(i + rng.choice([0, 0, 0, 1])) % len(consts)])
            elif r < 0.82:
                out.append(X)
            elif r < 0.9:
                out.append(Y)
            elif r < 0.95:
                out.append(C('g', X))
            else:
                out.append(V('_'))
        return out
    cl = [(C('w', *head_args()), ('true',)) for _ in range(rng.choice([2, 3, 4]))]
    ha = head_args()
    cl.append((C('wr', *ha), ('and', ('call', C('w', *[a if a[0] == 'v' and a[1] != '_' else V('B%d' % i) for i, a in enumerate(ha)])),
                              ('call', C('=', Y, rng.choice([X, A('k0'), Y]))))))
    qv = [V('Q0'), V('Q1'), V('Q2')]
    # the query is modelled on one of the clause heads, so that it gets past the constant fields and what decides is
    # the repeated variable: its positions get two different constants, the same constant, or query variables
    target = rng.choice(cl)[0][2]
    qargs = []
    for i in range(K):
        a = target[i]
        r = rng.random()
        if a[0] == 'v':
            qargs.append(rng.choice(qv) if r < 0.5 else rng.choice(consts[:3]))
        elif r < 0.55:
            qargs.append(a if a[0] != 'c' or not term_vars(a) else C('g', rng.choice(consts[:2])))
        elif r < 0.9:
            qargs.append(rng.choice(qv))
        else:
            qargs.append(rng.choice(consts))
    return cl, rng.choice(['w', 'w', 'wr']), qargs


def build_then_fill_case(rng):
    """clauses that first build their terms with `=` on body-only variables (partial structures, aliases) and fill the
    holes afterwards, by later `=` goals or by calls: B1 = [a|B2], B2 = [b], Out = B1"""
    nb = rng.choice([2, 3, 4, 5])
    B = [V('B%d' % i) for i in range(1, nb + 1)]
    H = [V('H1'), V('H2')]
    consts = [A('a'), A('b'), I(1), NIL]
    goals = []
    for i in range(nb):
        later = B[i + 1:]
        r = rng.random()
        if not later or r < 0.3:
            rhs = rng.choice(consts + [C('f', A('a'))])
        elif r < 0.5:
            rhs = rng.choice(later)
        elif r < 0.75:
            rhs = C(rng.choice(['pair', 'f']), *[rng.choice(later + consts[:2]) for _ in range(rng.choice([1, 2]))])
        else:
            rhs = L([rng.choice(consts[:2] + later)], rng.choice(later + [NIL]))
        g = C('=', B[i], rhs) if rng.random() < 0.8 else C('=', rhs, B[i])
        goals.append(('call', g))
    if rng.random() < 0.5:
        rng.shuffle(goals)
    if rng.random() < 0.4:
        goals.insert(rng.randrange(len(goals) + 1), ('call', C('num', rng.choice(B))))
    goals.append(('call', C('=', H[0], B[0])))
    goals.append(('call', C('=', H[1], rng.choice([C('r', *B[:2]), B[-1], L(B[:2])]))))
    cl = [(C('num', I(1)), ('true',)), (C('num', A('a')), ('true',)), (C('mk', *H), gen.conj(goals))]
    qargs = [rng.choice([V('Q0'), V('Q0'), L([A('a'), A('b')]), A('a')]), rng.choice([V('Q1'), V('Q0')])]
    return cl, 'mk', qargs


def run_case(ctx, seed, idx, tier):
    if idx >= ctx['exh'] and (idx - ctx["exh"]) % 50 == 9:
        clauses, qn, qargs = build_then_fill_case(random.Random(seed * 43 + idx))
        return _case(ctx, clauses, qn, qargs, None, {'build_then_fill_clauses': 1})
    if idx >= ctx['exh'] and (idx - ctx["exh"]) % 50 == 3:
        clauses, qn, qargs = wide_case(random.Random(seed * 41 + idx))
        return _case(ctx, clauses, qn, qargs, None, {'wide_heads': 1})
    if idx >= ctx['exh'] and (idx - ctx["exh"]) % 3000 == 11:
        clauses, qn, qargs, cap = many_answers_case(random.Random(seed * 37 + idx))
        return _case(ctx, clauses, qn, qargs, None, {'queries_with_many_answers': 1}, maxans=cap)
    if idx >= ctx['exh'] and (idx - ctx["exh"]) % 3000 == 7:
        clauses, qn, qargs = big_table_case(random.Random(seed * 31 + idx))
        return _case(ctx, clauses, qn, qargs, None, {'big_fact_tables': 1})
    if idx < ctx['exh']:
        clauses, qn, qargs = exh_case(idx)
        return _case(ctx, clauses, qn, qargs, None, {'exhaustive_cases': 1})
    rng = random.Random((seed * 1000003 + idx) * 7 + 1)
    qvars = [V('Q0'), V('Q1'), V('Q2')]
    r = rng.random()
    if r < 0.7:
        clauses, preds = gen.gen_prog_stratified(rng)
        qn, qa = rng.choice(preds)
        qargs = gen.gen_query_args(rng, qa, qvars)
        c = {'kind_stratified': 1}
    else:
        clauses, qn, qargs = gen.gen_template_case(rng)
        if rng.random() < 0.3:
            # put the template next to unrelated predicates
            extra, _ = gen.gen_prog_stratified(rng)
            clauses = clauses + extra
        c = {'kind_template': 1}
    if rng.random() < 0.2:
        clauses = gen.add_confusable_twin(rng, clauses)
        c['confusable_twin_terms'] = 1
    return _case(ctx, clauses, qn, qargs, rng, c)


def run_corpus(ctx, item):
    return _case(ctx, item['clauses'], item['q'][0], item['q'][1], None, {})


def replay(ctx, w):
    return diff_replay(ctx['real'], w)
