"""C02 - unification computes a most general unifier, or fails."""
import random
from .. import gen
from ..real import Real
from ..refA import unify as ref_unify
from ..sto import sto
from ..terms import V, A, C, L, NIL, I, canon, Cyclic, snap_real, build_real, rprogram
from ..observe import SCRIPT_FN

PROPERTY = 'C02'
LEVEL = 'exploration'
RULE = ('random pairs of finite terms (atoms, ints, Python strings and other Python constants incl. None, 5 pool variables, compound terms with '
        'name/arity clashes f/1 f/2 g/2, proper and partial lists, depth <= 3) unified with the real '
        'unify() under a stack of 0-4 earlier real unifications that are held open (suspended '
        'generators); checked: number of yields, both arguments snapshot to the same term at the yield, '
        'joint snapshot of (t1, t2, all pool variables) equals the reference MGU up to renaming, '
        'unify(t2,t1) on a fresh copy gives the same result, and the pre-state is back after the '
        'generator is exhausted or closed. Every 16th case is a long LIFO history of held unifications over up to 65 variables (chains of variable-to-variable links, pushes and pops, snapshot after every operation). Thorough adds all pairs over a small universe. Plus an online '
        'monitor wrapped around the engine-internal unify while generated programs run (every internal '
        'yield: both sides snapshot equal). Non-trivial = both terms compound, or variable-variable under '
        'prior bindings; distinct = hash of (stack, pair)')
ASSUMPTIONS = ['Robinson unifier with occurs check (ypv/refA.py unify) is the oracle; MGUs are unique up to '
               'renaming so equality of canonical joint snapshots is most-generality + aliasing',
               'pairs (or prior unifications) that are subject to occurs check under some processing order '
               'are discarded (STO, unspecified by the property)',
               'Python constants are ints, strs, None, non-integral floats, bytes and tuples; values that Python '
               'itself equates across types (1 == True == 1.0) are not mixed']
RULE_ADDED = (' Added after the rounds of independently written changes (DESIGN.md 12.2): ' +
              'terms from two engines and from a cleared engine; terms of 15-300 nodes; unifications created before the bindings they start under; term objects built under bindings that are undone before use; Python constants None, floats, bytes, tuples.')
RULE = RULE + RULE_ADDED

POOL = [V('X%d' % i) for i in range(5)]


def gterm(rng, d):
    r = rng.random()
    if d <= 0 or r < 0.3:
        r2 = rng.random()
        if r2 < 0.45:
            return rng.choice(POOL)
        if r2 < 0.7:
            return A(rng.choice(['a', 'b', 'f', '[]', 'ab', 'A']))
        if r2 < 0.83:
            return I(rng.choice([0, 1, 2, -1, 10 ** 30]))
        if r2 < 0.88:
            # other Python constants: the falsy and the unusual ones (None, floats, bytes, tuples)
            return ('py', rng.choice(['None', 'None', '2.5', '-0.5', "b'a'", '()', '(1, 2)']))
        return ('s', rng.choice(['a', 'b', '']))
    if r < 0.7:
        # (zero-argument compound terms f() are terms too - not the atom f, not f/1)
        name, n = rng.choice([('f', 1), ('f', 2), ('g', 2), ('g', 2), ('h', 3), ('a', 1), ('fo', 2), ('foo', 2), ('ga', 2), ('f', 0), ('a', 0), ('ab', 0)])
        return C(name, *[gterm(rng, d - 1) for _ in range(n)])
    items = [gterm(rng, d - 1) for _ in range(rng.choice([1, 2, 3]))]
    if rng.random() < 0.4:
        return L(items, rng.choice(POOL))
    return L(items)


def big_term(rng):
    """large terms: long lists, wide compounds, deep nesting (sizes around 16/32/64 where fast paths switch)"""
    k = rng.choice(['list', 'wide', 'deep'])
    n = rng.choice([15, 16, 17, 31, 32, 33, 40, 64, 65]) if rng.random() < 0.88 else rng.choice([100, 128, 129, 200, 256, 257, 300])
    leaf = lambda: rng.choice([A('a'), A('b'), I(1), rng.choice(POOL)])
    if k == 'list':
        return L([leaf() for _ in range(n)], rng.choice([NIL, NIL, rng.choice(POOL)]))
    if k == 'wide':
        return C('w', *[leaf() for _ in range(n)])
    t = leaf()
    for _ in range(min(n, 40)):
        t = C('f', t) if rng.random() < 0.7 else C('g', t, leaf())
    return t


def mutate_similar(rng, t, d=0):
    """a term similar to t (so that unification often succeeds non-trivially)"""
    if rng.random() < (0.25 if d < 3 else 0.03):
        return rng.choice(POOL)
    if t[0] == 'c':
        if rng.random() < 0.05:
            return C(t[1], *t[2][:-1])       # arity clash, same name
        if rng.random() < 0.08:
            return C(rng.choice(['k', t[1] + 'o', t[1][:1], t[1].upper()]), *t[2])   # name clash, same arity
        return ('c', t[1], tuple(mutate_similar(rng, a, d + 1) for a in t[2]))
    if rng.random() < 0.15:
        return gterm(rng, 1)
    return t


UNIVERSE = None


def universe():
    """2-level universe for the bounded-exhaustive slice"""
    global UNIVERSE
    if UNIVERSE is None:
        base = [A('a'), A('b'), I(1), V('X0'), V('X1')]
        lvl = list(base)
        for x in base:
            lvl.append(C('f', x))
        for x in base:
            for y in base:
                lvl.append(C('f', x, y))
                lvl.append(C('g', x, y))
        UNIVERSE = lvl
    return UNIVERSE


def plan(tier, seed):
    if tier == 'quick':
        return {'n': 45000, 'deadline': 150, 'floor': {'lifo_histories': 1, 'lifo_chains_of_17_or_more_links': 1, 'distinct_nontrivial': 5000, 'unifiable': 5000,
                                                       'not_unifiable': 5000, 'online_yields_checked': 20000,
                                                       'with_prior_stack': 10000}}
    u = len(universe())
    return {'n': 1800000 + u * u, 'deadline': 540, 'exh': u * u,
            'floor': {'lifo_histories': 1, 'lifo_chains_of_17_or_more_links': 1, 'distinct_nontrivial': 100000, 'unifiable': 100000, 'not_unifiable': 100000,
                      'online_yields_checked': 400000, 'with_prior_stack': 200000, 'exhaustive_pairs': u * u}}


def EXHAUSTIVE(tier):
    if tier == 'thorough':
        u = len(universe())
        return {'universe_terms': u, 'pairs': u * u}
    return None


def setup(tier, seed):
    real = Real(clock=False, registry=True)
    yp_cleared = real.engine()
    yp_cleared.atom('a')
    yp_cleared.clear()          # after clear() the atom table is new, but ATOM_NIL is the old object
    return {'real': real, 'yp': real.engine(), 'yp2': real.engine(), 'yp3': yp_cleared,
            'exh': (len(universe()) ** 2 if tier == 'thorough' else 0)}


def check_pair(ctx, stack, t1, t2, rng):
    """returns (violation or None, info)"""
    real = ctx['real']
    E = real.E
    yp = ctx['yp']
    # the second term is sometimes built by another engine (same names, distinct Atom objects) or by an
    # engine that was cleared: terms are engine-independent values
    r_other = rng.random()
    yp_b = yp if r_other < 0.6 else (ctx['yp2'] if r_other < 0.85 else ctx['yp3'])
    c = {}
    if yp_b is not yp:
        c['terms_from_two_engines'] = 1
    # reference: apply the stack, then the pair
    s = {}
    for a, b in stack:
        if sto([(a, b)], s):
            return None, {'discard': 'sto_prior'}
        try:
            s2 = ref_unify(a, b, s)
        except Cyclic:
            return None, {'discard': 'sto_prior'}
        if s2 is None:
            return None, {'discard': 'prior_fails'}
        s = s2
    if sto([(t1, t2)], s):
        return None, {'discard': 'sto'}
    try:
        s1 = ref_unify(t1, t2, s)
    except Cyclic:
        return None, {'discard': 'sto'}
    observed = [t1, t2] + POOL
    exp = None if s1 is None else canon(observed, s1)
    exp_pre = canon(observed, s)

    def real_run(x, y, how):
        vmap = {}
        robs = [build_real(yp, t, vmap) for t in observed]
        rstack = [(build_real(yp, a, vmap), build_real(yp, b, vmap)) for a, b in stack]
        held = []
        try:
            if temp:
                # the term objects are built while some of their variables are bound; those bindings are then undone
                tg = []
                for tv, tc in temp:
                    g0 = iter(E.unify(build_real(yp, tv, vmap), build_real(yp, tc, vmap)))
                    next(g0)
                    tg.append(g0)
                rx, ry = build_real(yp, x, vmap), build_real(yp_b, y, vmap)
                for g0 in reversed(tg):
                    g0.close()
                del tg
            else:
                rx, ry = build_real(yp, x, vmap), build_real(yp_b, y, vmap)
            early = None
            if how_created == 'early':
                # the unification is created first and only STARTED under the stack of bindings
                early = E.unify(rx, ry)
            for a, b in rstack:
                g = iter(E.unify(a, b))
                held.append(g)
                try:
                    next(g)
                except StopIteration:
                    return ('prior_failed_in_engine', None)
            pre = snap_real(E, robs)
            if pre != exp_pre:
                return ('prestate', {'expected': exp_pre, 'got': pre})
            g = iter(early if early is not None else E.unify(rx, ry))
            early = None        # (the harness must not keep a second reference: 'drop' means dropped)
            yields = 0
            at = None
            same = None
            for _ in g:
                yields += 1
                if yields == 1:
                    at = snap_real(E, robs)
                    same = (snap_real(E, [rx]) == snap_real(E, [ry]))
                    if how == 'close':
                        g.close()
                        break
                    if how == 'drop':
                        break
                    if how == 'throw':
                        try:
                            g.throw(KeyError('consumer'))
                        except KeyError:
                            pass
                        except StopIteration:
                            pass
                        except AttributeError:
                            pass          # YPSuccess objects are plain iterators without throw(): nothing to unwind
                        break
                if yields > 3:
                    break
            del g
            post = snap_real(E, robs)
            return ('ok', {'yields': yields, 'at': at, 'same': same, 'post': post})
        finally:
            for g in reversed(held):
                g.close()

    how = rng.choice(['exhaust', 'exhaust', 'exhaust', 'close', 'close', 'drop', 'throw'])
    how_created = 'early' if (stack and rng.random() < 0.35) else 'late'
    temp = []
    if rng.random() < 0.2:
        from ..terms import term_vars
        tvs = []
        for v in term_vars(t1) + term_vars(t2):
            if v not in tvs and v not in [a for a, b in stack]:
                tvs.append(v)
        for v in tvs[:rng.choice([1, 2])]:
            temp.append((v, rng.choice([A('a'), A('b'), I(1), C('f', A('a'))])))
        if temp:
            c['terms_built_under_bindings_undone_later'] = 1
    if how_created == 'early':
        c['created_before_the_bindings_it_starts_under'] = 1
    st, r = real_run(t1, t2, how)
    if st != 'ok':
        return ({'kind': 'harness:' + st, 'detail': r}, {})
    w = {'stack': stack, 't1': t1, 't2': t2, 'how': how, 'created': how_created}
    if exp is None:
        if r['yields'] != 0:
            return ({'kind': 'yields_but_not_unifiable', 'detail': {'yields': r['yields'], 'at': r['at']}, 'witness': w}, c)
        c['not_unifiable'] = 1
    else:
        if r['yields'] == 0:
            return ({'kind': 'fails_but_unifiable', 'detail': {'expected': exp}, 'witness': w}, c)
        if r['yields'] > 1 and how == 'exhaust':
            return ({'kind': 'yields_more_than_once', 'detail': {'yields': r['yields']}, 'witness': w}, c)
        if not r['same']:
            return ({'kind': 'sides_differ_at_yield', 'detail': {'at': r['at']}, 'witness': w}, c)
        if r['at'] != exp:
            return ({'kind': 'not_mgu', 'detail': {'expected': exp, 'got': r['at']}, 'witness': w}, c)
        c['unifiable'] = 1
    if r['post'] != exp_pre:
        return ({'kind': 'prestate_not_restored', 'detail': {'expected': exp_pre, 'got': r['post'], 'how': how}, 'witness': w}, c)
    # symmetry on a fresh copy
    st2, r2 = real_run(t2, t1, 'exhaust')
    if st2 == 'ok':
        if (r2['yields'] > 0) != (exp is not None) or (exp is not None and r2['at'] != exp):
            return ({'kind': 'asymmetric', 'detail': {'forward': r['at'], 'backward': r2['at'], 'expected': exp}, 'witness': w}, c)
        c['symmetry_checked'] = 1
    if stack:
        c['with_prior_stack'] = 1
    if how != 'exhaust':
        c['closed_at_yield'] = 1
        c['ended_by_' + how] = 1
    return None, c


def nontrivial(stack, t1, t2):
    if t1[0] == 'c' and t2[0] == 'c':
        return True
    return t1[0] == 'v' and t2[0] == 'v' and bool(stack)


def run_online(ctx, rng):
    """wrap the engine-internal unify while a generated program runs"""
    real = ctx['real']
    E = real.E
    stats = {'yields': 0, 'bad': None}
    orig = E.unify

    def mon(a, b):
        for x in orig(a, b):
            if stats['yields'] < 1500:
                # (the first 1500 internal unifications of a run are looked at: with the long lists of some templates
                # a snapshot of both sides at every one of tens of thousands of yields would take minutes)
                stats['yields'] += 1
                sa, sb = snap_real(E, [a]), snap_real(E, [b])
                if sa != sb and ('cyclic',) not in (sa, sb) and stats['bad'] is None:
                    stats['bad'] = (sa, sb)
            yield x
    if rng.random() < 0.6:
        clauses, preds = gen.gen_prog_stratified(rng)
        qn, qa = rng.choice(preds)
        qargs = gen.gen_query_args(rng, qa, [V('Q0'), V('Q1'), V('Q2')])
    else:
        clauses, qn, qargs = gen.gen_template_case(rng)
    src = rprogram(clauses)
    E.unify = mon
    try:
        try:
            yp = E.YP()          # captures the monitored unify in its context
            yp.load_script_from_string(real.compile(src), SCRIPT_FN)
            vmap = {}
            rargs = [build_real(yp, t, vmap) for t in qargs]
            n = 0
            for _ in yp.query(qn, rargs):
                n += 1
                if n >= 30:
                    break
        except RecursionError:
            pass
        except Exception as e:
            return {'c': {'online_runs': 1, 'online_exceptions': 1}, 'nt': False, 'key': None}
    finally:
        E.unify = orig
    r = {'c': {'online_runs': 1, 'online_yields_checked': stats['yields']}, 'nt': False, 'key': None}
    if stats['bad']:
        r['v'] = {'kind': 'online_sides_differ_at_yield', 'detail': stats['bad'],
                  'witness': {'src': src, 'qname': qn, 'qargs': qargs}}
    return r


def run_lifo(ctx, rng):
    """a long LIFO history of held unifications over many variables: first a chain of variable-to-variable links
    (up to 64 long, built head first, end first or in random order), then pushes (bind some variable of the chain)
    and pops (close the newest unifications, possibly into the chain); after EVERY operation the joint snapshot of
    all variables - read through get_value of a randomly chosen variable first, as a user would - must equal the
    reference substitution at that depth of the stack."""
    real = ctx['real']
    E = real.E
    yp = ctx['yp']
    n = rng.choice([3, 6, 12, 16, 17, 18, 20, 25, 33, 40, 64])
    W = [V('W%d' % i) for i in range(n + 1)]
    vmap = {}
    robs = [build_real(yp, w, vmap) for w in W]
    links = [(W[i], W[i + 1]) if rng.random() < 0.7 else (W[i + 1], W[i]) for i in range(n)]
    order = rng.choice(['head_first', 'end_first', 'random'])
    if order == 'end_first':
        links.reverse()
    elif order == 'random':
        rng.shuffle(links)
    ops = [('push', a, b) for a, b in links]
    vals = [A('a'), A('b'), I(0), I(7), ('s', 'a'), ('s', ''), ('py', 'None'), ('py', '2.5'), C('g', A('green')), C('f', rng.choice(W)), L([A('a')], rng.choice(W))]
    for _ in range(rng.choice([6, 10, 16])):
        r = rng.random()
        if r < 0.5:
            ops.append(('push', rng.choice([W[0], W[0], W[-1], rng.choice(W)]), rng.choice(vals)))
        elif r < 0.6:
            ops.append(('push', rng.choice(vals), rng.choice(W)))
        elif r < 0.9:
            ops.append(('pop', 1))
        else:
            ops.append(('pop', rng.choice([2, 3, n // 2, n])))
    sstack = [{}]
    held = []
    c = {'lifo_histories': 1}
    if n >= 17:
        c['lifo_chains_of_17_or_more_links'] = 1
    w = {'lifo': True, 'n': n, 'order': order, 'ops': ops}
    viol = None
    try:
        for k, op in enumerate(ops):
            if op[0] == 'push':
                a, b = op[1], op[2]
                s = sstack[-1]
                if sto([(a, b)], s):
                    continue
                try:
                    s2 = ref_unify(a, b, s)
                except Cyclic:
                    continue
                g = iter(E.unify(build_real(yp, a, vmap), build_real(yp, b, vmap)))
                try:
                    next(g)
                    ok = True
                except StopIteration:
                    ok = False
                if ok != (s2 is not None):
                    viol = {'kind': 'yields_but_not_unifiable' if ok else 'fails_but_unifiable', 'detail': {'op_index': k, 'op': op}}
                    if ok:
                        held.append(g)
                    break
                if ok:
                    held.append(g)
                    sstack.append(s2)
            else:
                for _ in range(min(op[1], len(held))):
                    held.pop().close()
                    sstack.pop()
            c['lifo_ops'] = c.get('lifo_ops', 0) + 1
            probe = rng.choice(robs)
            probe.get_value()
            got = snap_real(E, robs)
            exp = canon(W, sstack[-1])
            if got != exp:
                viol = {'kind': 'bindings_wrong_after_operation', 'detail': {'op_index': k, 'op': op, 'expected': exp, 'got': got}}
                break
    finally:
        while held:
            held.pop().close()
    if viol is None:
        got = snap_real(E, robs)
        if got != canon(W, {}):
            viol = {'kind': 'prestate_not_restored', 'detail': {'expected': canon(W, {}), 'got': got}}
    r = {'c': c, 'key': ('lifo', n, order, tuple(ops)), 'nt': True}
    if viol:
        viol['witness'] = w
        r['v'] = viol
    return r


def run_case(ctx, seed, idx, tier):
    rng = random.Random((seed * 1000003 + idx) * 7 + 2)
    if idx >= ctx['exh'] and idx % 16 == 1:
        return run_lifo(ctx, rng)
    if idx < ctx['exh']:
        u = universe()
        t1, t2 = u[idx // len(u)], u[idx % len(u)]
        stack = []
        v, c = check_pair(ctx, stack, t1, t2, rng)
        c = dict(c)
        c['exhaustive_pairs'] = 1
    else:
        if idx % 8 == 0:
            return run_online(ctx, rng)
        if rng.random() < 0.06:
            t1 = big_term(rng)
            t2 = mutate_similar(rng, t1) if rng.random() < 0.8 else big_term(rng)
        else:
            t1 = gterm(rng, rng.choice([0, 1, 2, 3]))
            t2 = mutate_similar(rng, t1) if rng.random() < 0.6 else gterm(rng, rng.choice([0, 1, 2, 3]))
        stack = []
        free = list(POOL)
        rng.shuffle(free)
        for _ in range(rng.choice([0, 0, 1, 2, 3, 4])):
            a = free.pop() if rng.random() < 0.85 else gterm(rng, 2)
            stack.append((a, gterm(rng, rng.choice([0, 1, 2]))))
        v, c = check_pair(ctx, stack, t1, t2, rng)
    r = {'c': {k: n for k, n in c.items() if k != 'discard'}, 'key': (stack, t1, t2)}
    if 'discard' in c:
        r['discard'] = c['discard']
        r['nt'] = False
        return r
    if v:
        r['v'] = v
        r['nt'] = True
        return r
    r['nt'] = nontrivial(stack, t1, t2)
    if r['nt']:
        r['sample'] = {'stack': stack, 't1': t1, 't2': t2}
    return r


def corpus():
    X0, X1, X2 = POOL[:3]
    return [
        {'stack': [], 't1': C('f', A('a')), 't2': C('f', A('a'), A('b'))},       # arity mismatch, equal names
        {'stack': [(X0, X1), (X1, X2)], 't1': X0, 't2': A('a')},                 # chain
        {'stack': [], 't1': C('f', X0, X0), 't2': C('f', X1, A('a'))},           # shared variables across arguments
        {'stack': [(X0, C('g', X1, A('b')))], 't1': C('g', A('a'), X2), 't2': X0},
        {'stack': [], 't1': A('a'), 't2': ('s', 'a')},                           # atom vs Python string
        {'stack': [], 't1': I(1), 't2': I(1)},
        {'stack': [], 't1': X0, 't2': X0},
        {'stack': [(X0, X1)], 't1': X1, 't2': X0},
        {'stack': [], 't1': L([X0, X1], X2), 't2': L([A('a'), A('b'), A('c')])},
    ]


def run_corpus(ctx, item):
    rng = random.Random(0)
    v, c = check_pair(ctx, item['stack'], item['t1'], item['t2'], rng)
    r = {'c': {k: n for k, n in c.items() if k != 'discard'}, 'key': (item['stack'], item['t1'], item['t2']), 'nt': True}
    if v:
        r['v'] = v
    return r


def replay(ctx, w):
    from ..diff import totuple
    rng = random.Random(0)
    v, c = check_pair(ctx, [tuple(totuple(p)) for p in w['stack']], totuple(w['t1']), totuple(w['t2']), rng)
    return {'v': v, 'info': c}
