"""C16 - source literals and Python values denote the same terms."""
import random
from ..real import Real
from ..terms import V, A, C, I, L, NIL, canon, snap_real, build_real, is_ground, term_vars
from ..observe import SCRIPT_FN
from .c15 import pyvalue, has_partial_list

PROPERTY = 'C16'
LEVEL = 'exploration'
RULE = ('random literal terms: unquoted atoms, quoted atoms over arbitrary Unicode (Latin-1, Greek, Cyrillic, CJK, astral '
        'emoji, combining marks, control characters incl. NUL, newline, CR, tab, %, double quote, quotes written as '
        "\\'; no backslashes otherwise, no lone surrogates), integers incl. leading zeros, nested compounds with quoted "
        'functor names, [...] lists, [H|T] patterns, _ ; each placed in fact, head, body (X = LITERAL) and query '
        'position. Checked: the snapshot of X after p(X) equals the term of the generator\'s own AST; to_python(X) '
        'equals the stated mapping; the API-built twin (atom/functor/listpair/makelist/ints) unifies with the compiled '
        'literal in all four positions and a twin with one leaf changed does not; yp.atom(n) is yp.atom(n) and atoms '
        'produced by compiled code are those interned objects; terms built in a second engine unify with the '
        'literal compiled in the first. Non-trivial = literal contains a quoted atom or a list/compound; distinct = '
        'hash of the literal source text')
ASSUMPTIONS = ['the renderer (term -> source text) is the inverse of the documented literal syntax',
               'to_python is not called on partial lists (unspecified)']
RULE_ADDED = (' Added after the rounds of independently written changes (DESIGN.md 12.2): ' +
              'a quarter of the cases compiled through the file API; CR, CR LF, NEL, BOM, decomposed and NFKC-unstable characters; the literal next to its confusable twin in one clause; to_python of a caller-built term (makelist / listpair / functor around its own variables) at every answer and after the query.')
RULE = RULE + RULE_ADDED


def plan(tier, seed):
    if tier == 'quick':
        return {'n': 20000, 'deadline': 150,
                'floor': {'compiled_from_file': 1, 'distinct_nontrivial': 4000, 'to_python_checked': 5000, 'twin_unifications': 25000,
                          'negative_twins': 5000, 'interning_checked': 8000, 'cross_engine_unifications': 5000,
                          'quoted_atoms': 8000, 'non_ascii_atoms': 3000, 'atoms_with_quote_or_newline': 2000}}
    return {'n': 520000, 'deadline': 540,
            'floor': {'compiled_from_file': 1, 'distinct_nontrivial': 80000, 'to_python_checked': 100000, 'twin_unifications': 500000,
                      'negative_twins': 100000, 'interning_checked': 150000, 'cross_engine_unifications': 100000,
                      'quoted_atoms': 150000, 'non_ascii_atoms': 60000, 'atoms_with_quote_or_newline': 40000}}


def setup(tier, seed):
    return {'real': Real(clock=False)}


RANGES = [(0x20, 0x7e), (0xa0, 0xff), (0x370, 0x3ff), (0x400, 0x45f), (0x4e00, 0x4e40), (0x1f600, 0x1f640),
          (0x300, 0x30f), (0x0, 0x1f), (0x7f, 0x9f), (0x2028, 0x2029), (0xfb00, 0xfb06), (0x1d400, 0x1d420), (0xe000, 0xe010)]


def rand_text(rng):
    n = rng.choice([0, 1, 1, 2, 3, 5, 8, 20])
    out = []
    for _ in range(n):
        r = rng.random()
        if r < 0.12:
            out.append(rng.choice(["'", '\n', '%', '"', ' ', '\t', '\r', "''", "'\n"]))
        elif r < 0.2:
            out.append(rng.choice(['import os', '__import__', ')', '(', ',', '.', ':-', '[]', '{}', '#', 'x = 1', 'None', '/*', '*/', '/* c */', '//', '<!--']))
        elif r < 0.27:
            # text that Unicode normalisation (NFC/NFKC), BOM stripping or newline translation would change
            out.append(rng.choice(['e\u0301', 'A\u030a', '\u212b', '\u2126', '\uf900', '\u0344', 'q\u0307\u0323', '\ufeff', '\u200d',
                                   '\u202e', '\ufb01', '\u00b2', '\uff21', '\r\n', '\r', '\x85', '\x0c', '\x1c', '\x00', '\u2028']))
        else:
            lo, hi = rng.choice(RANGES)
            ch = chr(rng.randrange(lo, hi + 1))
            if ch == '\\':
                ch = '/'
            out.append(ch)
    return ''.join(out)


def gen_literal(rng, d, c):
    r = rng.random()
    if d <= 0 or r < 0.4:
        r2 = rng.random()
        if r2 < 0.3:
            return A(rng.choice(['a', 'b', 'foo', 'x_1', 'aB9', '[]']))
        if r2 < 0.38:
            # quoted atoms spelled like the variables of the pool, like internal names, like two arguments
            c['quoted_atoms'] = c.get('quoted_atoms', 0) + 1
            return ('qa', rng.choice(['X', 'Y', 'Zed', '_Under', 'T', '_', 'x1', 'arg1', 'a,b', 'X,Y']))
        if r2 < 0.65:
            t = rand_text(rng)
            c['quoted_atoms'] = c.get('quoted_atoms', 0) + 1
            if any(ord(ch) > 127 for ch in t):
                c['non_ascii_atoms'] = c.get('non_ascii_atoms', 0) + 1
            if "'" in t or '\n' in t:
                c['atoms_with_quote_or_newline'] = c.get('atoms_with_quote_or_newline', 0) + 1
            return ('qa', t)
        if r2 < 0.85:
            return ('num', rng.choice(['0', '1', '42', '007', '00', '123456789012345678901234567890']))
        if r2 < 0.93:
            return V(rng.choice(['X', 'Y', 'Zed', '_Under', '_1', '_2', '_3', '_4', 'X1', '_G1']))
        return V('_')
    if r < 0.65:
        n = rng.choice([1, 2, 3])
        name = A(rng.choice(['f', 'g', 'point'])) if rng.random() < 0.6 else ('qa', rand_text(rng))
        if name[1] == '.':
            name = ('qa', '..')      # compounds named '.' are list pairs; other arities are outside the stated mapping
        return ('cmp', name, [gen_literal(rng, d - 1, c) for _ in range(n)])
    if r < 0.9:
        return ('lst', [gen_literal(rng, d - 1, c) for _ in range(rng.choice([0, 1, 2, 3]))], None)
    return ('lst', [gen_literal(rng, d - 1, c) for _ in range(rng.choice([1, 2]))], V(rng.choice(['T', 'X', '_'])))


def render(l):
    k = l[0]
    if k == 'a':
        return l[1]
    if k == 'qa':
        return "'" + l[1].replace("'", "\\'") + "'"
    if k == 'num':
        return l[1]
    if k == 'v':
        return l[1]
    if k == 'cmp':
        return render(l[1]) + '(' + ','.join(render(a) for a in l[2]) + ')'
    s = '[' + ','.join(render(a) for a in l[1])
    if l[2] is not None:
        s += '|' + render(l[2])
    return s + ']'


def to_term(l, cnt):
    """the term the literal denotes (each _ a fresh variable)"""
    k = l[0]
    if k == 'a':
        return A(l[1])
    if k == 'qa':
        return A(l[1])
    if k == 'num':
        return I(int(l[1]))
    if k == 'v':
        if l[1] == '_':
            cnt[0] += 1
            return V('_anon%d' % cnt[0])
        return l
    if k == 'cmp':
        return ('c', l[1][1], tuple(to_term(a, cnt) for a in l[2]))
    items = [to_term(a, cnt) for a in l[1]]
    return L(items, to_term(l[2], cnt) if l[2] is not None else NIL)


def confusable_twin(l):
    """the literal with every variable replaced by the quoted atom of the same text and vice versa"""
    k = l[0]
    if k == 'v':
        return ('qa', l[1])
    import re
    if k == 'qa' and re.fullmatch(r'[A-Z_][A-Za-z0-9_]*', l[1]) and l[1] != '_':
        return V(l[1])
    if k == 'cmp':
        return ('cmp', l[1], [confusable_twin(a) for a in l[2]])
    if k == 'lst':
        return ('lst', [confusable_twin(a) for a in l[1]], l[2])
    return l


def perturb(rng, t):
    """change one leaf (for the negative twin); returns None if there is nothing to change"""
    if t[0] == 'a':
        return A(t[1] + 'x') if t[1] != '[]' else A('nil')
    if t[0] == 'i':
        return I(t[1] + 1)
    if t[0] == 'c':
        idx = list(range(len(t[2])))
        rng.shuffle(idx)
        for i in idx:
            p = perturb(rng, t[2][i])
            if p is not None:
                return ('c', t[1], t[2][:i] + (p,) + t[2][i + 1:])
        return ('c', t[1] + 'x', t[2])
    return None


def nonvar_ground_skeleton(t):
    return t


def judge(ctx, lit, rng, c):
    real = ctx['real']
    E = real.E
    text = render(lit)
    term = to_term(lit, [0])
    w = {'literal': text}
    twin = confusable_twin(lit)
    ttext = render(twin)
    src = 'p(%s).\nh(%s) :- true.\nb(Bv) :- Bv = %s.\nq(Qa, Qb) :- Qa = Qb.\n' % (text, text, text)
    # two literals with the same spelling but different structure in ONE clause (head and body)
    src += 'pp(%s, %s).\npb(Pa, Pb) :- Pa = %s, Pb = %s.\n' % (text, ttext, ttext, text)
    src += 'item([%s, 1]).\nitem([%s, 2]).\nitem([third, more, extra]).\n' % (text, ttext)
    try:
        if rng.random() < 0.25:
            # source text in a FILE is source text too (bytes as written: CR, CR LF and the rest stay what they are)
            code = real.compile_file(src)
            c['compiled_from_file'] = c.get('compiled_from_file', 0) + 1
        else:
            code = real.compile(src)
    except Exception as e:
        if 'too large' in str(e):
            return None, 'too_large'
        return {'kind': 'compile:' + type(e).__name__, 'detail': str(e)[:200], 'witness': w}, None
    try:
        yp = real.engine(code)
        yp2 = real.engine()
    except Exception as e:
        return {'kind': 'load:' + type(e).__name__, 'detail': str(e)[:200], 'witness': w}, None
    exp = canon([term], {})
    try:
        for pred in ('p', 'h', 'b'):
            X = yp.variable()
            got = []
            tps = []
            objs = []
            for _ in yp.query(pred, [X]):
                got.append(snap_real(E, [X]))
                if not has_partial_list(term):
                    tps.append(E.to_python(X))
                objs.append(X.get_value())
            if got != [exp]:
                return {'kind': 'literal_denotes_other_term', 'detail': {'position': pred, 'expected': exp, 'got': got}, 'witness': w}, None
            if not has_partial_list(term):
                want = pyvalue(term)
                if tps != [want]:
                    return {'kind': 'to_python_mapping_wrong', 'detail': {'position': pred, 'expected': want, 'got': tps}, 'witness': w}, None
                c['to_python_checked'] = c.get('to_python_checked', 0) + 1
            # every atom object inside the value is the engine's interned object for that name
            stack = [objs[0]]
            while stack:
                o = stack.pop()
                if isinstance(o, E.Atom):
                    if o is not yp.atom(o.name()):
                        return {'kind': 'atom_not_interned', 'detail': {'position': pred, 'name': o.name(), 'inside': exp}, 'witness': w}, None
                    c['interning_checked'] = c.get('interning_checked', 0) + 1
                elif isinstance(o, E.Functor):
                    stack.extend(o._args)
            if term[0] == 'a':
                if objs[0] is not yp.atom(term[1]) or yp.atom(term[1]) is not yp.atom(term[1]):
                    return {'kind': 'atom_not_interned', 'detail': {'position': pred, 'name': term[1]}, 'witness': w}, None
                c['interning_checked'] = c.get('interning_checked', 0) + 1
        cnt = [0]
        pair = [to_term(lit, cnt), to_term(twin, cnt)]
        for pred, want in (('pp', pair), ('pb', [pair[1], pair[0]])):
            Pa, Pb = yp.variable(), yp.variable()
            got = [snap_real(E, [Pa, Pb]) for _ in yp.query(pred, [Pa, Pb])]
            if got != [canon(want, {})]:
                return {'kind': 'literal_denotes_other_term', 'detail': {'position': pred + ' (two similar literals in one clause)',
                                                                          'expected': canon(want, {}), 'got': got}, 'witness': dict(w, twin=ttext)}, None
            c['similar_literal_pairs'] = c.get('similar_literal_pairs', 0) + 1
        # a term the CALLER built around its own variables (makelist / listpair / functor) and keeps: to_python of that
        # same object follows the bindings of each answer and is back to unbound afterwards
        if not has_partial_list(term) and not has_partial_list(pair[1]) and rng.random() < 0.4:
            for mk in ('makelist', 'listpair', 'functor'):
                N, M = yp.variable(), yp.variable()
                T = yp.makelist([N, M]) if mk == 'makelist' else (yp.listpair(N, M) if mk == 'listpair' else yp.functor('.', [N, yp.listpair(M, yp.ATOM_NIL)]))
                seen = []
                for _ in yp.query('item', [T]):
                    if mk == 'listpair' and not isinstance(E.to_python(M), list):
                        continue
                    tpt = E.to_python(T)
                    exp_t = [E.to_python(N), E.to_python(M)] if mk != 'listpair' else [E.to_python(N)] + E.to_python(M)
                    if tpt != exp_t or E.to_python(T) != exp_t:
                        return {'kind': 'to_python_of_a_kept_term_does_not_follow_the_bindings',
                                'detail': {'built_with': mk, 'answer': len(seen), 'to_python_of_term': repr(tpt)[:120], 'to_python_of_its_variables': repr(exp_t)[:120]},
                                'witness': dict(w, twin=ttext)}, None
                    seen.append(tpt)
                after = E.to_python(T) if mk != 'listpair' else [E.to_python(N), E.to_python(M)]
                if after != [None, None]:
                    return {'kind': 'to_python_of_a_kept_term_does_not_follow_the_bindings',
                            'detail': {'built_with': mk, 'after_the_query': repr(after)[:120]}, 'witness': dict(w, twin=ttext)}, None
                c['kept_template_conversions'] = c.get('kept_template_conversions', 0) + len(seen)
        # the constructors take a Python list the caller keeps using (a row of a table, built once): they must not
        # change it, and building the same term from it a second time gives the same term again
        if term[0] == 'c' and not has_partial_list(term):
            proper = []
            tt = term
            while tt[0] == 'c' and tt[1] == '.' and len(tt[2]) == 2:
                proper.append(tt[2][0])
                tt = tt[2][1]
            vm_ = {}
            if tt == NIL and proper:
                items = [build_real(yp, a, vm_) for a in proper]
                mk = lambda: yp.makelist(items)
            else:
                items = [build_real(yp, a, vm_) for a in term[2]]
                mk = (lambda: yp.functor(term[1], items)) if not (term[1] == '.' and len(term[2]) == 2) else (lambda: yp.listpair(items[0], items[1]))
            keep = list(items)
            for attempt in (1, 2):
                built = mk()
                if len(items) != len(keep) or any(x is not y for x, y in zip(items, keep)):
                    return {'kind': 'constructor_changed_the_list_it_was_given', 'detail': {'attempt': attempt, 'length_before': len(keep), 'length_after': len(items)}, 'witness': w}, None
                if snap_real(E, [built]) != exp:
                    return {'kind': 'api_built_term_differs', 'detail': {'attempt': attempt, 'expected': exp, 'got': snap_real(E, [built])}, 'witness': w}, None
            c['constructor_argument_lists_checked'] = c.get('constructor_argument_lists_checked', 0) + 1
        # API-built twins, built in this engine and in a second engine
        for eng, label in ((yp, 'same_engine'), (yp2, 'other_engine')):
            for pos in ('fact', 'head', 'body', 'query'):
                twin = build_real(eng, term, {})
                if pos == 'query':
                    X = yp.variable()
                    n = 0
                    for _ in yp.query('q', [twin, X]):
                        n += 1
                        if snap_real(E, [X]) != snap_real(E, [twin]):
                            return {'kind': 'twin_differs_in_query_position', 'detail': {'engine': label}, 'witness': w}, None
                    ok = n == 1
                else:
                    ok = len(list(yp.query({'fact': 'p', 'head': 'h', 'body': 'b'}[pos], [twin]))) == 1
                if not ok:
                    return {'kind': 'twin_does_not_unify', 'detail': {'position': pos, 'engine': label, 'term': exp}, 'witness': w}, None
                c['twin_unifications'] = c.get('twin_unifications', 0) + 1
                if label == 'other_engine':
                    c['cross_engine_unifications'] = c.get('cross_engine_unifications', 0) + 1
            bad = perturb(rng, term)
            if bad is not None:
                twin = build_real(eng, bad, {})
                for pred in ('p', 'h', 'b'):
                    if len(list(yp.query(pred, [twin]))) != 0:
                        return {'kind': 'different_term_unifies', 'detail': {'position': pred, 'engine': label, 'literal_term': exp,
                                                                              'other_term': canon([bad], {})}, 'witness': w}, None
                c['negative_twins'] = c.get('negative_twins', 0) + 1
        # atoms of the same name are one object per engine, distinct objects across engines, yet unify
        for name in [t[1] for t in all_atoms(term)][:4]:
            a1, a2 = yp.atom(name), yp2.atom(name)
            if a1 is not yp.atom(name):
                return {'kind': 'atom_not_interned', 'detail': {'name': name}, 'witness': w}, None
            if len(list(E.unify(a1, a2))) != 1:
                return {'kind': 'atoms_do_not_unify_across_engines', 'detail': {'name': name}, 'witness': w}, None
            c['interning_checked'] = c.get('interning_checked', 0) + 1
    except RecursionError:
        return None, 'recursion'
    except Exception as e:
        return {'kind': 'exception:' + type(e).__name__, 'detail': str(e)[:200], 'witness': w}, None
    return None, None


def all_atoms(t, acc=None):
    acc = [] if acc is None else acc
    if t[0] == 'a':
        acc.append(t)
    elif t[0] == 'c':
        for a in t[2]:
            all_atoms(a, acc)
    return acc


def shared_engine_threads_case(ctx, rng, idx):
    """several threads ask ONE engine for atoms that do not exist yet (names met for the first time by all of them at
    about the same moment), with yield injection on the engine's lines: every thread must get the same object per
    name, and it must be the one the engine hands out afterwards"""
    import sys
    import threading
    from .c04 import LineInjector
    real = ctx['real']
    E = real.E
    yp = real.engine()
    if ctx.get('lines') is None:
        ctx['lines'] = LineInjector(E.__file__, rng.random())
    inj = ctx['lines']
    k = rng.choice([2, 3, 4, 8])
    names = ['thr %d %d %s' % (idx, i, rng.choice(['a', 'é', 'x y'])) for i in range(rng.choice([20, 60]))]
    got = [dict() for _ in range(k)]
    start = threading.Barrier(k)

    def work(t):
        start.wait()
        order = list(names)
        if t % 2:
            order.reverse()
        for n in order:
            got[t][n] = yp.atom(n)
    old = sys.getswitchinterval()
    sys.setswitchinterval(1e-6)
    inj.start(3000000)
    try:
        ts = [threading.Thread(target=work, args=(i,)) for i in range(k)]
        for t in ts:
            t.start()
        for t in ts:
            t.join(60)
    finally:
        inj.stop()
        sys.setswitchinterval(old)
    c = {'shared_engine_thread_runs': 1, 'atoms_requested_from_threads': k * len(names), 'thread_switches_observed': inj.switches}
    if any(t.is_alive() for t in ts):
        return {'c': c, 'nt': False, 'key': None, 'discard': 'thread_did_not_finish'}
    for n in names:
        objs = [g.get(n) for g in got]
        if any(o is not objs[0] for o in objs) or objs[0] is not yp.atom(n):
            return {'c': c, 'nt': True, 'key': None, 'v': {'kind': 'atom_not_interned', 'detail': {'name': n, 'threads': k, 'distinct_objects': len(set(id(o) for o in objs))},
                                                           'witness': {'threads': k, 'names': len(names), 'literal': 'yp.atom(%r) from %d threads' % (n, k)}}}
    return {'c': c, 'nt': True, 'key': ('threads', idx)}


def many_atoms_case(ctx, rng, idx):
    """an engine that has seen a very large number of distinct atom names (a term per file name of a big data set):
    the atoms handed out earlier - to the host and to compiled code - are still THE objects for their names"""
    real = ctx['real']
    E = real.E
    yp = real.engine(real.compile("kept('plain text', build, [x1]).\n"))
    early = {n: yp.atom(n) for n in ('plain text', 'build', 'x1', 'never in the program')}
    X, Y, Z = yp.variable(), yp.variable(), yp.variable()
    from_code = None
    for _ in yp.query('kept', [X, Y, Z]):
        from_code = (X.get_value(), Y.get_value())
    n = rng.choice([20000, 70000, 101000, 130000])
    mk = yp.atom
    for i in range(n):
        mk('file_%d_%d' % (idx, i))
    c = {'engines_with_many_atoms': 1, 'atoms_created_in_one_engine': n}
    w = {'literal': '%d distinct atoms created in one engine' % n}
    for name, a in early.items():
        if yp.atom(name) is not a:
            return {'c': c, 'nt': True, 'key': None, 'v': {'kind': 'atom_not_interned', 'detail': {'name': name, 'after_creating_atoms': n}, 'witness': w}}
    for _ in yp.query('kept', [X, Y, Z]):
        if X.get_value() is not from_code[0] or Y.get_value() is not from_code[1] or X.get_value() is not early['plain text']:
            return {'c': c, 'nt': True, 'key': None, 'v': {'kind': 'atom_not_interned', 'detail': {'where': 'literal of compiled code', 'after_creating_atoms': n}, 'witness': w}}
    return {'c': c, 'nt': True, 'key': ('many_atoms', idx)}


def run_case(ctx, seed, idx, tier):
    rng = random.Random((seed * 1000003 + idx) * 7 + 16)
    if idx % 1000 == 501:
        return many_atoms_case(ctx, rng, idx)
    if idx % 400 == 77:
        return shared_engine_threads_case(ctx, rng, idx)
    c = {}
    lit = gen_literal(rng, rng.choice([0, 1, 2, 3]), c)
    v, disc = judge(ctx, lit, rng, c)
    text = render(lit)
    nt = lit[0] in ('qa', 'cmp', 'lst')
    r = {'c': c, 'nt': nt and not disc, 'key': text}
    if disc:
        r['discard'] = disc
    if v:
        r['v'] = v
        r['nt'] = True
    elif nt and not disc:
        r['sample'] = {'literal': text[:120]}
    return r


def corpus():
    lits = [('qa', "it's"), ('qa', 'a\nb'), ('qa', 'é ü'), ('qa', ''), ('qa', '%not a comment'), ('qa', '"'), ('qa', 'hello world'),
            ('qa', '[]'), ('a', '[]'), ('lst', [], None), ('lst', [A('a'), ('num', '007')], V('T')), ('num', '00'),
            ('cmp', ('qa', 'a b'), [V('_'), V('_')]), ('cmp', A('f'), [('lst', [('lst', [], None)], None)]), ('qa', '\x00'), ('qa', "'")]
    return [{'lit': l} for l in lits]


def run_corpus(ctx, item):
    rng = random.Random(0)
    c = {}
    v, disc = judge(ctx, item['lit'], rng, c)
    r = {'c': c, 'nt': True, 'key': render(item['lit'])}
    if v:
        r['v'] = v
    return r


def replay(ctx, w):
    return {'v': None, 'info': 'replay by literal text is not supported (AST needed): rerun the tier with the same VERIF_SEED', 'witness': w}
