"""shared machinery of C05 (cut) and C06 (disjunction / if-then-else / negation)"""
import io
import itertools
import random
import re
from .. import gen, diff
from ..real import Real
from ..terms import V, A, C, rprogram
from .common import result_from_diff, diff_replay

CASE_RE = re.compile(r'^# ------ case: (.*)$', re.M)


def rewrite_cases(real, src):
    """which compile_body cases the code generator went through for src
    (its own debug lines, captured by compiling once more with debug_generator)"""
    class DCtx:
        debug_filename = ''
        debug_parser = False
        debug_generator = True
        current_source_file = ''
        outf = io.StringIO()
    try:
        real.Cm.compile_prolog_from_string(src, DCtx)
    except Exception:
        return []
    labels = set()
    for m in CASE_RE.finditer(DCtx.outf.getvalue()):
        lab = m.group(1)
        lab = lab.split('[')[0] if lab.startswith('$CUTIF') else lab
        labels.add(lab.strip()[:40])
    return sorted(labels)


def transparent(b, in_cond=False):
    """no cut inside a condition of -> or under \\+ (positions the property
    does not speak about)"""
    k = b[0]
    if k == 'cut':
        return not in_cond
    if k in ('true', 'fail', 'call'):
        return True
    if k == 'not':
        return transparent(b[1], True)
    if k == 'then':
        return transparent(b[1], True) and transparent(b[2], in_cond)
    return transparent(b[1], in_cond) and transparent(b[2], in_cond)


def shapes(k):
    """all binary tree shapes with k leaves, as nested tuples of None"""
    if k == 1:
        return [None]
    out = []
    for i in range(1, k):
        for l in shapes(i):
            for r in shapes(k - i):
                out.append((l, r))
    return out


def count_leaves(sh):
    return 1 if sh is None else count_leaves(sh[0]) + count_leaves(sh[1])


def count_inner(sh):
    return 0 if sh is None else 1 + count_inner(sh[0]) + count_inner(sh[1])


LEAVES = ['z', 'o', 'm', '!', 'true', 'fail']
OPS = ['and', 'or', 'then']


def enum_space(kmax):
    """size of the bounded-exhaustive slice: list of (k, shape index, count)"""
    total = 0
    blocks = []
    for k in range(1, kmax + 1):
        shs = shapes(k)
        per = (len(OPS) ** (k - 1)) * (len(LEAVES) ** k)
        for si in range(len(shs)):
            blocks.append((k, si, total, per))
            total += per
    return blocks, total


def enum_body(index, blocks):
    for k, si, start, per in reversed(blocks):
        if index >= start:
            break
    sh = shapes(k)[si]
    r = index - start
    nops = k - 1
    ops = []
    for _ in range(nops):
        ops.append(OPS[r % len(OPS)])
        r //= len(OPS)
    lvs = []
    for _ in range(k):
        lvs.append(LEAVES[r % len(LEAVES)])
        r //= len(LEAVES)
    nv = [0]
    oi = iter(ops)
    li = iter(lvs)

    def build(s):
        if s is None:
            l = next(li)
            if l == '!':
                return ('cut',)
            if l in ('true', 'fail'):
                return (l,)
            nv[0] += 1
            return ('call', C(l, V('V%d' % nv[0])))
        op = next(oi)
        return (op, build(s[0]), build(s[1]))
    b = build(sh)
    return b, nv[0]


def wrap_body(bodies, nvars, rng=None):
    vars_ = [V('V%d' % i) for i in range(1, nvars + 1)]
    clauses = gen.leaf_facts()
    if rng is not None and rng.random() < 0.5:
        # two extra head arguments select the clause: heads with a repeated variable, constants, `_`; the caller
        # supplies pairs that unify with some heads and not with others (a cut only commits a clause that was entered)
        K1, K2 = V('K1'), V('K2')
        pats = [(V('S'), V('S')), (A('m0'), V('_')), (V('_'), A('m1')), (V('_'), V('_')), (K1, K2), (A('m1'), A('m0'))]
        for b in bodies:
            p = rng.choice(pats)
            clauses.append((C('t', p[0], p[1], *vars_), b))
        clauses.append((C('top', K1, K2, *vars_), gen.conj([('call', C('m', K1)), ('call', C('m', K2)), ('call', C('t', K1, K2, *vars_))])))
        return clauses, 'top', nvars + 2
    thead = C('t', *vars_) if vars_ else A('t')
    for b in bodies:
        clauses.append((thead, b))
    clauses.append((C('top', V('W'), *vars_), ('and', ('call', C('m', V('W'))), ('call', thead))))
    return clauses, 'top', nvars + 1


def run_control(ctx, clauses, qname, nargs, rng, counters, nontrivial_fn, loads=None, minimal=True,
                want_cases=False):
    qvars = [V('Q%d' % i) for i in range(nargs)]
    d = diff.differential(ctx['real'], clauses, qname, list(qvars), [], minimal=minimal, rng=rng,
                          loads=loads)
    nt = False
    sample = None
    if d['status'] == 'ok':
        refa = d['exp']['refA']
        nt = nontrivial_fn(refa, d['exp'])
        counters['cuts_executed'] = refa.cuts_executed
        counters['cut_pruned'] = refa.cut_pruned
        counters['commits'] = refa.commits
        src = d['witness']['loads']
        lines = [l for s, _ in src for l in s.split('\n') if l.startswith('t') and ':-' in l]
        sample = {'clauses': lines[:4], 'answers': len(d['exp']['answers']),
                  'first': d['exp']['answers'][:1]}
        if want_cases:
            for s, _ in src:
                for lab in rewrite_cases(ctx['real'], s):
                    ctx['labels'].add(lab)
    w = d.get('witness') or {}
    key = (w.get('loads'), w.get('query'))
    return result_from_diff(d, nt, key, counters, sample)
