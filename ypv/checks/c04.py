"""C04 - engine instances are isolated; interleaved queries do not interfere."""
import os
import pickle
import random
import select
import signal
import struct
import sys
import threading
import time
from .. import history as H
from .. import gen
from ..real import Real
from ..terms import V, A, C, I, rterm, rprogram
from ..observe import SCRIPT_FN

PROPERTY = 'C04'
LEVEL = 'exploration'
RULE = ('(a) 2-4 engines in one interpreter, each with its own history of 8-30 operations over the SAME predicate names '
        'with different contents (load script with/without overwrite, assert, retract, register_function, clear, atom '
        'creation, start / step / close suspended queries, full queries, read-back of a probe set), executed under three '
        'schedules: back to back, round-robin step interleaving, random interleaving; (b) one engine with 2-4 '
        'simultaneously suspended queries over disjoint variables on predicates using cut / if-then-else / \\+ / '
        'findall, stepped in random interleavings; (c) 2-8 threads with one engine each (scripts compiled beforehand in '
        'the main thread), sys.setswitchinterval(1e-6) and seeded sleep(0) injection on sys.monitoring LINE events of '
        'engine and script code. Oracle (schedule differential, no reference interpreter): the observation list of each '
        'engine (or of each suspended query) must equal the one obtained by running its projected sub-history ALONE in a '
        'freshly forked pristine interpreter. Non-trivial = >= 2 engines (queries) that each produce answers after a '
        'colliding operation of another engine; distinct = hash of (histories, schedule). Evidence counts thread '
        'switches actually observed between monitored lines')
ASSUMPTIONS = ['evaluate_bounded is excluded (interpreter-wide recursion limit), as the property states',
               'threads share only what the interpreter shares; ANTLR compilation happens in the main thread before the threads start',
               'no database change while an enumeration is suspended within one engine (that is C14)']
RULE_ADDED = (' Added after the rounds of independently written changes (DESIGN.md 12.2): ' +
              'tables of 16-40 facts with the same keys in every engine; facts with a variable repeated around a wide term, queried from threads; predicates named like API functions (atom, functor, query ...) defined, registered and queried; the host creates its query variables long before it uses them.')
RULE = RULE + RULE_ADDED

NAMES = ['p', 'q', 't']
PROBES = [('p', 1), ('q', 1), ('t', 1), ('p', 2), ('sp', 2), ('z0', 0), ('sh', 3), ('viar', 1), ('atom', 1), ('functor', 1), ('functor', 2), ('variable', 1), ('query', 1), ('unify', 1), ('makelist', 1)]


def plan(tier, seed):
    if tier == 'quick':
        return {'n': 520, 'deadline': 150, 'case_timeout': 120,
                'floor': {'distinct_nontrivial': 400, 'multi_engine_runs': 900, 'suspended_query_runs': 120, 'threaded_runs': 25,
                          'solo_runs_in_fresh_interpreter': 1500, 'thread_switches_observed': 10000, 'schedules_round_robin': 300,
                          'schedules_random': 300, 'observations_compared': 30000}}
    return {'n': 17500, 'deadline': 560, 'case_timeout': 200,
            'floor': {'distinct_nontrivial': 6000, 'multi_engine_runs': 18000, 'suspended_query_runs': 3000, 'threaded_runs': 600,
                      'solo_runs_in_fresh_interpreter': 30000, 'thread_switches_observed': 300000, 'observations_compared': 500000}}


# ---------------------------------------------------------------- solo server (pristine interpreter)

def _send(fd, obj):
    data = pickle.dumps(obj)
    os.write(fd, struct.pack('<I', len(data)))
    off = 0
    while off < len(data):
        off += os.write(fd, data[off:off + 65536])


def _recv(fd):
    hdr = b''
    while len(hdr) < 4:
        ch = os.read(fd, 4 - len(hdr))
        if not ch:
            return None
        hdr += ch
    n = struct.unpack('<I', hdr)[0]
    buf = b''
    while len(buf) < n:
        ch = os.read(fd, min(65536, n - len(buf)))
        if not ch:
            return None
        buf += ch
    return pickle.loads(buf)


def solo_child(history):
    """runs in a grandchild forked from the pristine server: no engine has ever been constructed here"""
    real = Real(clock=True)
    return H.normalise(H.run_real(real, history, 5000000))


def solo_server(rfd, wfd):
    signal.setitimer(signal.ITIMER_REAL, 0)
    # pristine: the modules are imported, but no engine is ever constructed and nothing is compiled in this process
    from .. import observe
    observe.import_repo()
    import antlr4
    while True:
        req = _recv(rfd)
        if req is None:
            os._exit(0)
        r2, w2 = os.pipe()
        pid = os.fork()
        if pid == 0:
            os.close(r2)
            try:
                out = ('ok', solo_child(req))
            except BaseException as e:
                import traceback
                out = ('crash', traceback.format_exc()[-1500:])
            try:
                _send(w2, out)
            finally:
                os._exit(0)
        os.close(w2)
        res = None
        r, _, _ = select.select([r2], [], [], 60)
        if r:
            res = _recv(r2)
        else:
            try:
                os.kill(pid, signal.SIGKILL)
            except OSError:
                pass
        os.close(r2)
        os.waitpid(pid, 0)
        _send(wfd, res if res is not None else ('timeout', None))


class Solo:
    def __init__(self):
        a_r, a_w = os.pipe()
        b_r, b_w = os.pipe()
        pid = os.fork()
        if pid == 0:
            os.close(a_w)
            os.close(b_r)
            solo_server(a_r, b_w)
            os._exit(0)
        os.close(a_r)
        os.close(b_w)
        self.pid, self.w, self.r = pid, a_w, b_r

    def run(self, history):
        _send(self.w, history)
        return _recv(self.r)

    def close(self):
        try:
            os.close(self.w)
            os.close(self.r)
            os.waitpid(self.pid, 0)
        except OSError:
            pass


def setup(tier, seed):
    # the solo server is forked FIRST, before this worker imports or constructs anything of the engine
    solo = Solo()
    real = Real(clock=True)
    return {'real': real, 'solo': solo, 'lines': None}


def finish(ctx):
    ctx['solo'].close()
    return {}


# ---------------------------------------------------------------- generators

def script(rng, eid, sid):
    X, Y = V('X'), V('Y')
    k = lambda s: A('e%d_%s%d' % (eid, s, sid))
    cl = []
    for i in range(rng.choice([1, 2, 3])):
        cl.append((C('p', k('p%d_' % i)), ('true',)))
    r = rng.random()
    if r < 0.3:
        cl.append((C('t', X), ('or', ('then', ('call', C('p', X)), ('call', C('q', Y))), ('call', C('=', X, k('else'))))))
    elif r < 0.55:
        cl.append((C('t', X), ('and', ('call', C('p', X)), ('cut',))))
        cl.append((C('t', k('never')), ('true',)))
    elif r < 0.75:
        cl.append((C('t', X), ('and', ('not', ('call', C('q', X))), ('call', C('p', X)))))
    else:
        cl.append((C('t', V('L')), ('call', C('findall', X, C('p', X), V('L')))))
    if rng.random() < 0.5:
        cl.append((C('q', k('q')), ('true',)))
    if rng.random() < 0.3:
        cl.append((C('p', X, Y), ('and', ('call', C('p', X)), ('call', C('q', Y)))))
    if rng.random() < 0.6:
        # a recursive predicate: its activations create many clause variables that stay unbound while suspended
        # (the helper is named per script: combined loads of a recursive predicate multiply answers exponentially)
        an = 'app%d_%d' % (eid, sid)
        H_, T_, R_ = V('H'), V('T'), V('R')
        cl.append((C(an, gen.NIL, Y, Y), ('true',)))
        cl.append((C(an, gen.L([H_], T_), Y, gen.L([H_], R_)), ('call', C(an, T_, Y, R_))))
        cl.append((C('sp', X, Y), ('call', C(an, X, Y, gen.L([k('l%d_' % i) for i in range(rng.choice([2, 4, 6]))])))))
    return cl


def engine_history(rng, eid, nsteps):
    hist = []
    sid = 0
    open_q = []
    qid = 0
    answers_after = 0
    big = rng.random() < 0.35
    if big:
        # a large table tab/2 whose keys (first arguments) are the same atoms in every engine, contents differ
        for i in range(rng.choice([16, 17, 20, 33, 40])):
            hist.append(('assert_fact', C('tab', A('k%d' % (i % 7)), A('e%d_t%d' % (eid, i))), True))
    shared = rng.random() < 0.4
    if shared:
        # facts in which a variable occurs several times, far apart (renaming them takes many steps: any
        # per-process scratch state of the renaming would be disturbed by another engine in between)
        pad = C('w', *[A('e%d_w%d' % (eid, i)) for i in range(rng.choice([3, 12, 30]))])
        Xs, Ys = V('Xs'), V('Ys')
        hist.append(('assert_fact', C('sh', Xs, pad, Xs), True))
        hist.append(('assert_fact', C('sh', C('f', Xs, Ys), pad, gen.L([Ys, Xs])), True))
    reserved = rng.random() < 0.35
    if reserved:
        # predicates named like the engine's own API functions: a script may define them and a program may register
        # them; whatever an engine does about such names is its own business and must not leak to the others
        rn = rng.choice(['atom', 'functor', 'variable', 'query', 'unify', 'makelist'])
        hist.append(('load', [(C(rn, A('e%d_r1' % eid)), ('true',)), (C(rn, A('e%d_r2' % eid), A('x')), ('true',)),
                              (C('viar', V('X')), ('call', C(rn, V('X'))))], True))
    for _ in range(nsteps):
        if reserved and rng.random() < 0.15:
            sid += 1
            if rng.random() < 0.5:
                hist.append(('register', rn, 1, [(A('e%d_rpy%d' % (eid, sid)),)], 'explicit'))
            else:
                hist.append(('run', rng.choice([rn, 'viar']), [V('Rv%d_%d' % (eid, sid))], None))
            continue
        if shared and rng.random() < 0.3:
            sid += 1
            key = rng.choice([A('e%d_s%d' % (eid, sid)), C('f', A('e%d_s%d' % (eid, sid)), I(sid))])
            hist.append(('run', 'sh', [key, V('_'), V('Sv%d_%d' % (eid, sid))], rng.choice([None, None, 1])))
            continue
        if big and rng.random() < 0.25:
            sid += 1
            hist.append(('run', 'tab', [A('k%d' % rng.randrange(7)), V('Tv%d_%d' % (eid, sid))], rng.choice([None, None, 2])))
            continue
        r = rng.random()
        sid += 1
        if r < 0.2:
            hist.append(('load', script(rng, eid, sid), rng.random() < 0.6))
        elif r < 0.32:
            name = rng.choice(['p', 'q'])
            hist.append(('assert_fact', C(name, A('e%d_f%d' % (eid, sid))), rng.random() < 0.7))
        elif r < 0.4 and not open_q:
            hist.append(('run', 'retract', [C(rng.choice(['p', 'q']), V('R%d' % sid))], rng.choice([1, None])))
        elif r < 0.47:
            ar = rng.choice([1, 1, 2, 0])
            nm = rng.choice(['q', 't']) if ar == 1 else ('p' if ar == 2 else 'z0')
            hist.append(('register', nm, ar, [tuple(A('e%d_py%d_%d' % (eid, sid, j)) for j in range(ar))], rng.choice(['inferred', 'inferred', 'explicit', 'variadic'])))
        elif r < 0.5 and not open_q:
            hist.append(('clear',))
        elif r < 0.55:
            hist.append(('atoms', ['p', 'shared_name', 'e%d' % eid, '[]']))
        elif r < 0.68:
            qid += 1
            if rng.random() < 0.3:
                hist.append(('start', qid, 'sp', [V('S%d_%d' % (eid, qid)), V('T%d_%d' % (eid, qid))]))
            else:
                hist.append(('start', qid, rng.choice(NAMES), [V('S%d_%d' % (eid, qid))]))
            hist.append(('next', qid))
            open_q.append(qid)
        elif r < 0.82 and open_q:
            hist.append(('next', rng.choice(open_q)))
        elif r < 0.87 and open_q:
            q = rng.choice(open_q)
            open_q.remove(q)
            hist.append(('close', q))
        else:
            hist.append(('run', rng.choice(NAMES), [V('Q%d_%d' % (eid, sid))], rng.choice([None, None, 1, 2])))
    for q in open_q:
        hist.append(('next', q))
        hist.append(('close', q))
    hist.append(('dump', PROBES))
    if rng.random() < 0.5:
        # the host creates all its query variables first (they stay unbound and unused for a long time, while
        # this and the other engines create and bind hundreds of variables of their own)
        from ..terms import term_vars
        names = []
        for st in hist:
            if st[0] in ('run', 'start'):
                for a in (st[2] if st[0] == 'run' else st[3]):
                    for v in term_vars(a):
                        if v[1] != '_' and v[1] not in names:
                            names.append(v[1])
        if names:
            hist.insert(0, ('mkvars', names))
    # a suspended enumeration must not see its own engine's store change (C14): drop modifications while queries are open
    out = []
    openset = set()
    for st in hist:
        if st[0] == 'start':
            openset.add(st[1])
        elif st[0] == 'close':
            openset.discard(st[1])
        elif openset and st[0] in ('assert_fact', 'clear', 'load', 'register') or (openset and st[0] == 'run' and st[1] == 'retract'):
            continue
        out.append(st)
    return out


def interleave(rng, hists, schedule):
    """-> list of (engine index, step)"""
    if schedule == 'back_to_back':
        return [(i, st) for i, h in enumerate(hists) for st in h]
    pos = [0] * len(hists)
    out = []
    live = [i for i, h in enumerate(hists) if h]
    rr = 0
    while live:
        if schedule == 'round_robin':
            i = live[rr % len(live)]
            rr += 1
        else:
            i = rng.choice(live)
        out.append((i, hists[i][pos[i]]))
        pos[i] += 1
        if pos[i] >= len(hists[i]):
            live.remove(i)
    return out


def solo_obs(ctx, hist, c):
    r = ctx['solo'].run(hist)
    c['solo_runs_in_fresh_interpreter'] = c.get('solo_runs_in_fresh_interpreter', 0) + 1
    if r is None or r[0] != 'ok':
        return None, r
    return r[1], None


def produces_answers(obs):
    n = 0
    for o in obs:
        if isinstance(o, list) and o and o[0] == 'ans':
            n += 1
        elif isinstance(o, list) and o and isinstance(o[0], list):
            n += 1
    return n


def case_multi_engine(ctx, rng, c):
    real = ctx['real']
    k = rng.choice([2, 2, 3, 4])
    hists = [engine_history(rng, eid, rng.choice([8, 12, 20, 30])) for eid in range(k)]
    solos = []
    for h in hists:
        o, err = solo_obs(ctx, h, c)
        if o is None:
            return {'c': c, 'nt': False, 'key': None, 'discard': 'solo_run_failed:%s' % (err[0] if err else 'none')}
        solos.append(o)
    nt = sum(1 for o in solos if produces_answers(o) > 0) >= 2
    keys = []
    from ..harness import h64
    for schedule in ('back_to_back', 'round_robin', 'random'):
        engines = [H.RealHistory(real, 5000000) for _ in range(k)]
        try:
            for i, st in interleave(rng, hists, schedule):
                engines[i].step(st)
        finally:
            for e in engines:
                e.finish()
        c['multi_engine_runs'] = c.get('multi_engine_runs', 0) + 1
        c['schedules_' + schedule] = c.get('schedules_' + schedule, 0) + 1
        for i, e in enumerate(engines):
            got = H.normalise(e.obs)
            c['observations_compared'] = c.get('observations_compared', 0) + len(got)
            if got != solos[i]:
                j = 0
                while j < min(len(got), len(solos[i])) and got[j] == solos[i][j]:
                    j += 1
                return {'c': c, 'nt': True, 'key': None,
                        'v': {'kind': 'engine_observation_differs_from_solo_run',
                              'detail': {'schedule': schedule, 'engine': i, 'step_index': j, 'step': H.normalise(hists[i][j]) if j < len(hists[i]) else None,
                                         'alone': solos[i][j] if j < len(solos[i]) else None, 'combined': got[j] if j < len(got) else None},
                              'witness': {'histories': H.normalise(hists), 'schedule': schedule}}}
        if nt:
            keys.append(h64((H.normalise(hists), schedule)))
    r = {'c': c, 'nt': False, 'key': None, 'multi_keys': keys}
    if nt:
        from .c14 import short
        r['sample'] = {'engines': k, 'history_engine_0': [short(s)[:100] for s in hists[0][:8]], 'schedules': ['back_to_back', 'round_robin', 'random']}
    return r


def case_suspended(ctx, rng, c):
    """one engine, several simultaneously suspended queries over disjoint variables"""
    real = ctx['real']
    cl = []
    for s in range(rng.choice([1, 2])):
        cl += script(rng, 0, s)
    cl += [(C('q', A('qa')), ('true',)), (C('q', A('qb')), ('true',))]
    load = [('load', cl, True), ('assert_fact', C('p', A('dyn')), True),
            # dynamic facts with variables below the top level: simultaneous uses must not constrain each other
            ('assert_fact', C('same', C('box', V('FV')), C('box', V('FV'))), True),
            ('assert_fact', C('same', V('FW'), gen.L([V('FW'), A('x')])), True)]
    k = rng.choice([2, 3, 4])
    qs = []
    for i in range(k):
        name = rng.choice(['t', 't', 'p', 'q', 'same'])
        if name == 'same':
            qs.append([('start', i, 'same', [rng.choice([C('box', A('k%d' % i)), V('S%d' % i), A('k%d' % i)]), V('T%d' % i)])]
                      + [('next', i)] * rng.choice([2, 3]) + [('close', i)])
            continue
        args = [V('S%d' % i)] if name != 'p' or rng.random() < 0.7 else [V('S%d' % i), V('T%d' % i)]
        qs.append([('start', i, name, args)] + [('next', i)] * rng.choice([2, 3, 5]) + [('close', i)])
    solos = []
    for q in qs:
        o, err = solo_obs(ctx, load + q, c)
        if o is None:
            return {'c': c, 'nt': False, 'key': None, 'discard': 'solo_run_failed'}
        solos.append(o[len(load):])
    eng = H.RealHistory(real, 5000000)
    per = [[] for _ in qs]
    try:
        for st in load:
            eng.step(st)
        for i, st in interleave(rng, qs, rng.choice(['round_robin', 'random'])):
            per[i].append(eng.step(st))
    finally:
        eng.finish()
    c['suspended_query_runs'] = c.get('suspended_query_runs', 0) + 1
    nt = sum(1 for o in solos if produces_answers(o) > 0) >= 2
    for i in range(k):
        got = H.normalise(per[i])
        c['observations_compared'] = c.get('observations_compared', 0) + len(got)
        if got != solos[i]:
            return {'c': c, 'nt': True, 'key': None,
                    'v': {'kind': 'suspended_query_differs_from_running_alone',
                          'detail': {'query': H.normalise(qs[i][0]), 'alone': solos[i], 'interleaved': got},
                          'witness': {'program': rprogram(cl), 'queries': H.normalise(qs)}}}
    from ..harness import h64
    return {'c': c, 'nt': nt, 'key': (rprogram(cl), H.normalise(qs)),
            'sample': {'program': rprogram(cl)[:300], 'simultaneous_queries': [rterm(C(q[0][2], *q[0][3])) for q in qs]} if nt else None}


class LineInjector:
    TOOL = 2

    def __init__(self, engine_file, seed):
        self.engine_file = engine_file
        self.lock = threading.Lock()
        self.rng = random.Random(seed)
        self.last = None
        self.switches = 0
        self.pairs = set()
        self.events = 0
        self.budget = None
        self._ok = {}
        m = sys.monitoring
        if m.get_tool(self.TOOL) is None:
            m.use_tool_id(self.TOOL, 'ypv-lines')
        m.register_callback(self.TOOL, m.events.LINE, self._cb)

    def _cb(self, code, line):
        ok = self._ok.get(code)
        if ok is None:
            fn = code.co_filename
            ok = self._ok[code] = (fn == self.engine_file or fn == SCRIPT_FN)
        if not ok:
            return sys.monitoring.DISABLE
        me = threading.get_ident()
        with self.lock:
            self.events += 1
            if self.last is not None and self.last[0] != me:
                self.switches += 1
                if len(self.pairs) < 20000:
                    self.pairs.add((self.last[1], self.last[2], code.co_name, line))
            self.last = (me, code.co_name, line)
            do = self.rng.random() < 0.25
            over = self.budget is not None and self.events > self.budget
        if over:
            sys.monitoring.set_events(self.TOOL, 0)
            return
        if do:
            time.sleep(0)

    def start(self, budget):
        self.budget = budget
        self.events = 0
        self.last = None
        sys.monitoring.restart_events()
        sys.monitoring.set_events(self.TOOL, sys.monitoring.events.LINE)

    def stop(self):
        sys.monitoring.set_events(self.TOOL, 0)


def case_threads(ctx, rng, c, tier):
    real = ctx['real']
    k = rng.choice([2, 3, 4, 8])
    hists = []
    for eid in range(k):
        h = [st for st in engine_history(rng, eid, rng.choice([8, 12, 16])) if st[0] not in ('bind', 'unbind')]
        hists.append(h)
    solos = []
    for h in hists:
        o, err = solo_obs(ctx, h, c)
        if o is None:
            return {'c': c, 'nt': False, 'key': None, 'discard': 'solo_run_failed'}
        solos.append(o)
    # compile every script in the main thread
    cache = {}
    for h in hists:
        for st in h:
            if st[0] == 'load':
                src = rprogram(st[1])
                if src not in cache:
                    try:
                        cache[src] = real.compile(src)
                    except Exception:
                        pass
    if ctx['lines'] is None:
        ctx['lines'] = LineInjector(real.E.__file__, rng.random())
    inj = ctx['lines']

    class NoClock:
        pass
    engines = []
    for _ in range(k):
        e = H.RealHistory(real, 5000000)
        e.code_cache = cache
        engines.append(e)
    saved_clock = real.clock
    real.clock = None           # the step clock is a per-process monitor; threads are watched by the line injector
    errors = []

    def work(i):
        try:
            for st in hists[i]:
                engines[i].step(st)
        except BaseException as e:
            errors.append((i, type(e).__name__ + ': ' + str(e)[:100]))
        finally:
            engines[i].finish()
    old_si = sys.getswitchinterval()
    sys.setswitchinterval(1e-6)
    sw0 = inj.switches
    inj.start(100000 if tier == 'quick' else 1000000)
    try:
        ts = [threading.Thread(target=work, args=(i,)) for i in range(k)]
        for t in ts:
            t.start()
        for t in ts:
            t.join(100)
    finally:
        inj.stop()
        sys.setswitchinterval(old_si)
        real.clock = saved_clock
    c['threaded_runs'] = c.get('threaded_runs', 0) + 1
    c['threads_started'] = c.get('threads_started', 0) + k
    c['thread_switches_observed'] = c.get('thread_switches_observed', 0) + (inj.switches - sw0)
    c['line_events'] = c.get('line_events', 0) + inj.events
    if any(t.is_alive() for t in ts):
        return {'c': c, 'nt': False, 'key': None, 'discard': 'thread_did_not_finish'}
    if errors:
        return {'c': c, 'nt': True, 'key': None, 'v': {'kind': 'exception_in_thread', 'detail': {'errors': errors[:3]},
                                                       'witness': {'histories': H.normalise(hists)}}}
    nt = sum(1 for o in solos if produces_answers(o) > 0) >= 2
    for i, e in enumerate(engines):
        got = H.normalise(e.obs)
        c['observations_compared'] = c.get('observations_compared', 0) + len(got)
        if got != solos[i]:
            j = 0
            while j < min(len(got), len(solos[i])) and got[j] == solos[i][j]:
                j += 1
            return {'c': c, 'nt': True, 'key': None,
                    'v': {'kind': 'engine_in_thread_differs_from_solo_run',
                          'detail': {'engine': i, 'threads': k, 'step_index': j, 'alone': solos[i][j] if j < len(solos[i]) else None,
                                     'threaded': got[j] if j < len(got) else None},
                          'witness': {'histories': H.normalise(hists), 'schedule': 'threads'}}}
    return {'c': c, 'nt': nt, 'key': (H.normalise(hists), 'threads'),
            'sample': {'threads': k, 'thread_switches_in_this_run': inj.switches - sw0, 'line_events': inj.events} if nt else None}


def run_case(ctx, seed, idx, tier):
    rng = random.Random((seed * 1000003 + idx) * 7 + 4)
    c = {}
    r = idx % 40
    if r < 27:
        return case_multi_engine(ctx, rng, c)
    if r < 38:
        return case_suspended(ctx, rng, c)
    return case_threads(ctx, rng, c, tier)


def finish_counters(ctx):
    return {}


def replay(ctx, w):
    return {'v': None, 'info': 'rerun the tier with the same VERIF_SEED', 'witness': w}
