"""Answer-sequence differential: real engine vs. reference A = reference B.
Shared by C01, C05, C06, C09, C13, C20 (DESIGN 3.2, 4)."""
from .terms import canon, rprogram, rterm, V, Cyclic, anonymise
from . import refA as RA
from . import refB as RB
from .gen import uniq_clauses

MAXANS = 60
DEPTH_SAFE = 40        # reference call depth below which the engine may not run out of stack


def totuple(x):
    if isinstance(x, list):
        return tuple(totuple(y) for y in x)
    return x


def run_refA(loads, qname, qargs, observed, maxans=MAXANS, budget=20000, pre=None):
    """loads: list of (clauses, overwrite). Returns dict or raises nothing:
    {'discard': reason} or {'answers': [...], 'complete': bool, 'ref': RefA}"""
    r = RA.RefA(budget)
    for clauses, ow in loads:
        r.load(clauses, ow)
    if pre:
        pre(r)
    out = []
    complete = True
    try:
        for s in r.query(qname, qargs):
            out.append(canon(observed, s))
            if len(out) >= maxans:
                complete = False
                break
    except Cyclic:
        return {'discard': 'sto'}
    except RA.Budget:
        return {'discard': 'ref_budget'}
    except RA.RefError:
        return {'discard': 'ref_type_error'}
    except RecursionError:
        return {'discard': 'ref_depth'}
    return {'answers': out, 'complete': complete, 'ref': r}


def run_refB(loads, qname, qargs, observed, maxans=MAXANS, budget=200000, pre=None):
    db = RB.DB()
    for clauses, ow in loads:
        db.load(clauses, ow)
    if pre:
        pre(db)
    m = RB.MachineB(db, budget)
    out = []
    complete = True
    try:
        for _ in m.run(('c', qname, tuple(qargs))):
            out.append(m.snapshot(observed))
            if len(out) >= maxans:
                complete = False
                break
    except RB.BudgetB:
        return {'discard': 'refB_budget'}
    except RB.RefErrorB:
        return {'discard': 'refB_type_error'}
    except RecursionError:
        return {'discard': 'refB_depth'}
    return {'answers': out, 'complete': complete, 'ref': m}


def reference(loads, qname, qargs, observed, maxans=MAXANS, preA=None, preB=None):
    """both references; {'discard':...} | {'answers','complete','refA','refB'}"""
    a = run_refA(loads, qname, qargs, observed, maxans, pre=preA)
    if 'discard' in a:
        return a
    b = run_refB(loads, qname, qargs, observed, maxans, pre=preB)
    if 'discard' in b:
        return b
    if a['answers'] != b['answers'] or a['complete'] != b['complete']:
        return {'discard': 'oracle_disagreement', 'A': a['answers'][:5], 'B': b['answers'][:5]}
    return {'answers': a['answers'], 'complete': a['complete'], 'refA': a['ref'], 'refB': b['ref']}


def engine_bound(ref_steps):
    # logical bound separating "terminates" from "loops": the engine does work
    # proportional to term sizes per resolution step (get_value copies structures),
    # measured ratio up to ~1700 events per reference step on 60-element lists
    return 20000 * ref_steps + 2000000


def compare(expected, got, status, refres, observed_n=None):
    """returns None or (kind, detail)"""
    exp = expected['answers']
    refa = expected['refA']
    if isinstance(status, tuple):
        if status[1] == 'RecursionError' and refa.maxdepth > DEPTH_SAFE:
            return ('discard', 'engine_recursion_depth')
        return ('exception:' + status[1], {'message': status[2], 'answers_before': len(got),
                                           'expected_answers': len(exp)})
    if 'findall_nonground' in refa.flags:
        exp = [tuple(anonymise(t) for t in a) for a in exp]
        got = [tuple(anonymise(t) for t in a) for a in got]
    if status == 'budget':
        if got != exp[:len(got)]:
            return ('answers', first_diff(exp, got))
        return ('nontermination', {'answers_before_budget': len(got), 'expected': len(exp),
                                   'reference_steps': refa.steps})
    if got != exp:
        return ('answers', first_diff(exp, got))
    if expected['complete'] and status != 'done':
        return ('answers', {'note': 'engine produced more answers than the reference', 'n': len(got)})
    return None


def first_diff(exp, got):
    i = 0
    while i < len(exp) and i < len(got) and exp[i] == got[i]:
        i += 1
    return {'index': i, 'expected_n': len(exp), 'got_n': len(got),
            'expected': exp[i] if i < len(exp) else None,
            'got': got[i] if i < len(got) else None}


def run_engine_query(real, src, qname, qargs, observed, maxans=MAXANS, budget=None, loads_src=None):
    """compile+load src (or several (src, overwrite) loads), run the query.
    returns (answers, status, steps) or ('compile', typename, msg)"""
    try:
        if loads_src is None:
            loads_src = [(src, True)]
        yp = real.engine()
        for s, ow in loads_src:
            code = real.compile(s)
            yp.load_script_from_string(code, real_fn(), overwrite=ow)
    except Exception as e:
        return ('compile', type(e).__name__, str(e)[:300])
    vmap = {}
    rargs, vmap = real.build(yp, qargs, vmap)
    robs, vmap = real.build(yp, observed, vmap)
    return real.answers(yp.query(qname, rargs), robs, maxans, budget)


def real_fn():
    from .observe import SCRIPT_FN
    return SCRIPT_FN


def differential(real, clauses, qname, qargs, qvars, minimal=True, rng=None, maxans=MAXANS,
                 src=None, loads=None):
    """full case: render, reference, engine, compare.
    Returns dict(status='ok'|'discard'|'violation', ...)."""
    observed = list(qvars) + list(qargs)
    if loads is None:
        loads = [(clauses, True)]
    ref_loads = [(uniq_clauses(cl), ow) for cl, ow in loads]
    exp = reference(ref_loads, qname, qargs, observed, maxans)
    if 'discard' in exp:
        return {'status': 'discard', 'reason': exp['discard'], 'exp': exp}
    loads_src = [(rprogram(cl, minimal, rng), ow) for cl, ow in loads] if src is None else [(src, True)]
    refa = exp['refA']
    res = run_engine_query(real, None, qname, qargs, observed, maxans,
                           engine_bound(refa.steps), loads_src)
    witness = {'loads': [[s, ow] for s, ow in loads_src], 'qname': qname,
               'qargs': list(qargs), 'observed': observed,
               'query': '%s(%s)' % (qname, ','.join(rterm(a) for a in qargs)),
               'ref_loads': [[cl, ow] for cl, ow in ref_loads]}
    if res[0] == 'compile':
        if res[1] == 'CompilerError' and 'too large' in res[2]:
            return {'status': 'discard', 'reason': 'clause_too_large', 'exp': exp}
        return {'status': 'violation', 'kind': 'compile:' + res[1], 'detail': res[2],
                'witness': witness, 'exp': exp}
    got, status, steps = res
    d = compare(exp, got, status, exp)
    out = {'exp': exp, 'got': got, 'steps': steps, 'witness': witness, 'engine_status': status}
    if d is None:
        out['status'] = 'ok'
    elif d[0] == 'discard':
        out['status'] = 'discard'
        out['reason'] = d[1]
    else:
        out['status'] = 'violation'
        out['kind'] = d[0]
        out['detail'] = d[1]
    return out


def replay_witness(real, w, maxans=MAXANS):
    """re-run a recorded witness: references from the recorded clause terms,
    engine from the recorded source text."""
    qargs = [totuple(a) for a in w['qargs']]
    observed = [totuple(a) for a in w['observed']]
    ref_loads = [([(totuple(h), totuple(b)) for h, b in cl], ow) for cl, ow in w['ref_loads']]
    exp = reference(ref_loads, w['qname'], qargs, observed, maxans)
    if 'discard' in exp:
        return {'status': 'discard', 'reason': exp['discard']}
    res = run_engine_query(real, None, w['qname'], qargs, observed, maxans,
                           engine_bound(exp['refA'].steps), [(s, ow) for s, ow in w['loads']])
    if res[0] == 'compile':
        return {'status': 'violation', 'kind': 'compile:' + res[1], 'detail': res[2], 'witness': w}
    got, status, steps = res
    d = compare(exp, got, status, exp)
    if d is None or d[0] == 'discard':
        return {'status': 'ok', 'expected': exp['answers'], 'got': got}
    return {'status': 'violation', 'kind': d[0], 'detail': d[1], 'witness': w,
            'expected': exp['answers'][:10], 'got': got[:10]}
