"""The same Python predicate as different kinds of callable. register_function with the arity left out takes
"the number of function arguments" (inspect.signature): that number is N for every kind below, so each of them
defines name/N exactly like the plain function does."""
import functools
import inspect

KINDS = ['plain', 'wrapped', 'partial', 'method', 'callable_object', 'lambda', 'default_last', 'signature_attr',
         'wrapped_twice']


def variant(call, arity, kind):
    """call(args_tuple) -> generator; returns a callable of the given kind taking exactly `arity` positional args"""
    params = ','.join('a%d' % i for i in range(arity))
    tup = '(%s%s)' % (params, ',' if arity == 1 else '')
    ns = {'call': call}
    exec('def f(%s):\n    return call(%s)\n' % (params, tup), ns)
    f = ns['f']
    if kind == 'plain':
        return f
    if kind in ('wrapped', 'wrapped_twice'):
        def deco(fn):
            @functools.wraps(fn)
            def wrapper(*args, **kwargs):
                wrapper.calls += 1
                return fn(*args, **kwargs)
            wrapper.calls = 0
            return wrapper
        return deco(f) if kind == 'wrapped' else deco(deco(f))
    if kind == 'partial':
        exec('def g(tag%s):\n    return call(%s)\n' % (',' + params if arity else '', tup), ns)
        return functools.partial(ns['g'], 'tag')
    if kind == 'method':
        exec('class K:\n    def m(self%s):\n        return call(%s)\n' % (',' + params if arity else '', tup), ns)
        return ns['K']().m
    if kind == 'callable_object':
        exec('class K2:\n    def __call__(self%s):\n        return call(%s)\n' % (',' + params if arity else '', tup), ns)
        return ns['K2']()
    if kind == 'lambda':
        exec('f2 = lambda %s: call(%s)\n' % (params, tup), ns)
        return ns['f2']
    if kind == 'default_last':
        if arity == 0:
            return f
        ps = ['a%d' % i for i in range(arity)]
        ps[-1] += '=None'
        exec('def f3(%s):\n    return call(%s)\n' % (','.join(ps), tup), ns)
        return ns['f3']
    if kind == 'signature_attr':
        def h(*args):
            return call(tuple(args))
        h.__signature__ = inspect.signature(f)
        return h
    raise ValueError(kind)
