#!/bin/sh
# usage: selftest/run_mutant.sh <patch-file> <Cxx> [tier]
# Applies the patch to a scratch copy of /repo (outside /repo and /verif), runs the
# repository's tests there and the given check against it (YPV_REPO), removes the copy.
# exit status: 0 = mutant caught (check exit 1), 1 = missed, 2 = patch/tests problem
patch="$(realpath "$1")"; id="$2"; tier="${3:-quick}"
here="$(cd "$(dirname "$0")/.." && pwd)"
tmp="$(mktemp -d /tmp/ypv-mut.XXXXXX)"
trap 'rm -rf "$tmp"' EXIT
git -C /repo archive HEAD | tar -x -C "$tmp" || exit 2
# include uncommitted working tree state of /repo too
git -C /repo diff HEAD | (cd "$tmp" && patch -p1 -s) 2>/dev/null
(cd "$tmp" && patch -p1 -s < "$patch") || { echo "PATCH FAILED $patch"; exit 2; }
if [ -z "$SKIP_TESTS" ]; then
  (cd "$tmp" && PYTHONPATH="$tmp/src" /venv/bin/python -m pytest -q -p no:cacheprovider -x 2>&1 | tail -1 | grep -q "61 passed") || { echo "MUTANT BREAKS TESTS $patch"; [ -z "$ALLOW_TEST_FAIL" ] && exit 2; }
fi
out="$tmp/out.txt"
(cd "$here" && YPV_REPO="$tmp" YPV_EVIDENCE_DIR="$tmp/evidence" ./check "$id" "$tier" > "$out" 2>&1); rc=$?
grep -E "VIOLATION|INCONCLUSIVE|HELD|kind=" "$out" | head -4
if [ $rc -eq 1 ]; then echo "CAUGHT $(basename "$patch") by $id"; exit 0; fi
echo "MISSED $(basename "$patch") by $id (rc=$rc)"; exit 1
