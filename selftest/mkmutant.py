#!/usr/bin/env python3
"""usage: mkmutant.py <name> <file-relative-to-repo> <old> <new> [<file2> <old2> <new2> ...]
writes selftest/mutants/<name>.patch (unified diff against /repo working tree)"""
import sys, os, difflib
name = sys.argv[1]
rest = sys.argv[2:]
out = []
cur = {}
orig = {}
while rest:
    rel, old, new = rest[:3]
    rest = rest[3:]
    if rel not in cur:
        orig[rel] = cur[rel] = open(os.path.join('/repo', rel)).read()
    s = cur[rel]
    assert s.count(old) == 1, (rel, 'occurrences', s.count(old))
    cur[rel] = s.replace(old, new)
for rel in cur:
    out.extend(difflib.unified_diff(orig[rel].splitlines(True), cur[rel].splitlines(True), 'a/' + rel, 'b/' + rel))
here = os.path.dirname(os.path.abspath(__file__))
with open(os.path.join(here, 'mutants', name + '.patch'), 'w') as f:
    f.writelines(out)
print('wrote', name)
