#!/bin/sh
# runs every mutant in selftest/mutants against the check named by its file name prefix, and every seeded
# change against the check(s) recorded in its meta.json; prints one line each and a summary
cd "$(dirname "$0")/.." || exit 2
ok=0; bad=0
for m in selftest/mutants/*.patch; do
  id=$(basename "$m" | cut -d- -f1)
  r=$(selftest/run_mutant.sh "$m" "$id" 2>&1 | tail -1)
  echo "$r"
  case "$r" in CAUGHT*) ok=$((ok+1));; *) bad=$((bad+1));; esac
done
for d in seeded/C*/; do
  id=$(basename "$d" | cut -d- -f1)
  chk=$(/venv/bin/python -c "import json,sys; m=json.load(open('$d/meta.json')); c=[k for k,v in m.get('checks',{}).items() if v=='caught']; print(c[0] if c else '$id')")
  r=$(SKIP_TESTS=1 selftest/run_mutant.sh "$d/patch.diff" "$chk" 2>&1 | tail -1)
  echo "seeded $(basename $d): $r"
  case "$r" in CAUGHT*) ok=$((ok+1));; *) bad=$((bad+1));; esac
done
echo "SUMMARY caught=$ok not_caught=$bad"
[ $bad -eq 0 ]
